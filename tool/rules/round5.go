package rules

import (
	"go/token"
	"go/types"
	"strings"

	"golang.org/x/tools/go/ssa"

	"nsqverif/an"
)

// Rules added after the fifth round of independently seeded changes (DESIGN.md §11.11).
func init() {
	for id, extra := range map[string]string{
		"C01": " (started) GetTopic starts every topic it creates; (scanall) the scanner's channel list holds every channel; (guarded) the deadline heaps are touched under their own mutex.",
		"C02": " (idparse) a well-formed id of an unknown message is refused non-fatally; (negotiated) TOUCH restarts the negotiated timeout.",
		"C03": " (parse) the RDY count cannot wrap.",
		"C04": " (scanall) the scanner's channel list holds every channel of every topic, paused or not.",
		"C05": " (closeflush) once Topic/Channel.exit(false) has claimed the exit flag, every return follows flush and backend.Close; (loadall) LoadMetadata skips an entry, never the rest of the list.",
		"C06": " (loadall) as C05.loadall; (pausepath) pause vs unpause is decided by the route path only.",
		"C08": " (deleter) the once-only auto-delete of an ephemeral channel always deletes.",
		"C09": " (magic) the protocol magic is read with io.ReadFull; (idparse) as C02.idparse.",
		"C10": " (pausepath) pause vs unpause is decided by the route path only.",
		"C12": " (source) every PutMessages of a batch goes to the topic whose generator numbered it.",
		"C13": " (statsd) the previous collection's entry is taken only under name equality.",
		"C14": " (tombstoneall) every producer of the named node is tombstoned; (deletetopic) the channel registrations of a deleted topic are removed whether or not the topic key exists.",
		"C15": " (magic) as C09.magic; (keep) creating an existing registration keeps its producers.",
		"C16": " (timeout) the HTTP client bounds the whole request; (escape) names are query-escaped in lookupd queries.",
		"C17": " (adminlist) also: a copy of the options copies the admin list from the admin list.",
		"C18": " (timeout) as C16.timeout; (mode) lookupd addresses take precedence wherever a view chooses between lookupd and direct mode.",
		"C20": " (pertopic) each consumed topic gets its own handler object.",
	} {
		p := Props[id]
		p.Explanation += extra
		Props[id] = p
	}
	reg("C01.guarded", "LOCK", "in-flight / deferred maps and heaps are touched only under their own mutex (the Channel rows of C08.guarded): a scan popping under the wrong lock drops or corrupts entries", 20,
		only(c08guarded, func(n string) bool { return strings.Contains(n, "Channel)") }))
	reg("C02.negotiated", "ORIG", "TOUCH and delivery use the connection's negotiated msg_timeout (shared with C04.negotiated)", 2, c04negotiated)
	reg("C03.parse", "IVAL", "the RDY count cannot wrap between parsing and the range check (the ByteToBase10 obligations of C04.parse)", 1,
		only(c04parse, func(n string) bool {
			return strings.Contains(n, "ByteToBase10") || strings.Contains(n, "protocolV2).RDY")
		}))
	reg("C15.keep", "GUARD", "creating a registration that exists keeps its producers (shared with C14.keep)", 2, c14keep)
	reg("C16.escape", "ORIG", "names are query-escaped in the lookupd queries nsqd makes (shared with C17.escape)", 10, c17escape)

	reg("C01.started", "PATH", "GetTopic starts the pump of every topic it creates (unless metadata is being loaded)", 1, c01started)
	reg("C02.idparse", "PATH", "getMessageID refuses an id only for its length", 1, c02idparse)
	reg("C09.idparse", "PATH", "getMessageID refuses an id only for its length (shared with C02.idparse)", 1, c02idparse)
	reg("C04.scanall", "PATH", "NSQD.channels() lists every channel of every topic", 2, c04scanall)
	reg("C01.scanall", "PATH", "NSQD.channels() lists every channel of every topic (shared with C04.scanall)", 2, c04scanall)
	reg("C05.closeflush", "PATH", "after claiming the exit flag, exit(false) cannot return before flush and backend.Close", 2, c05closeflush)
	reg("C05.loadall", "SHAPE", "LoadMetadata's loops over topics and channels leave only by exhaustion", 2, c05loadall)
	reg("C06.loadall", "SHAPE", "LoadMetadata's loops over topics and channels leave only by exhaustion (shared with C05.loadall)", 2, c05loadall)
	reg("C08.deleter", "PATH", "the function handed to deleter.Do calls deleteCallback on every path", 2, c08deleter)
	reg("C09.magic", "ORIG", "the 4-byte protocol magic is read with io.ReadFull", 1, c09magic("nsqd"))
	reg("C15.magic", "ORIG", "the 4-byte protocol magic is read with io.ReadFull", 1, c09magic("nsqlookupd"))
	reg("C10.pausepath", "ORIG", "pause vs unpause is decided from req.URL.Path", 2, c10pausepath)
	reg("C06.pausepath", "ORIG", "pause vs unpause is decided from req.URL.Path (shared with C10.pausepath)", 2, c10pausepath)
	reg("C13.statsd", "GUARD", "statsd deltas are taken against the previous entry of the same name", 2, c13statsd)
	reg("C14.tombstoneall", "SHAPE", "doTombstoneTopicProducer visits every producer of the topic", 1, c14tombstoneall)
	reg("C14.deletetopic", "ORIG", "doDeleteTopic removes the channel registrations named by the request, whether or not the topic key exists", 1, c14deletetopic)
	reg("C16.timeout", "SHAPE", "http_api.NewClient sets http.Client.Timeout to the request timeout", 1, c16timeout)
	reg("C18.timeout", "SHAPE", "http_api.NewClient sets http.Client.Timeout to the request timeout (shared with C16.timeout)", 1, c16timeout)
	reg("C17.adminwrite", "ORIG", "whatever is stored into Options.AdminUsers comes from Options.AdminUsers (or the constructor's empty list)", 1, c17adminwrite)
	reg("C18.mode", "GUARD", "lookupd mode is chosen exactly when lookupd addresses are configured", 2, c18mode)
	reg("C20.pertopic", "ORIG", "nsq_to_nsq: the handler whose destination topic is set per consumed topic is allocated per topic", 1, c20pertopic)
}

// ---- C01.started -----------------------------------------------------------------------------------------------

func c01started(c *an.Ctx) {
	fn := c.Fn("nsqd", "(*NSQD).GetTopic")
	newTopic := c.Fn("nsqd", "NewTopic")
	start := c.Fn("nsqd", "(*Topic).Start")
	loadingF := c.P.Field("nsqd", "NSQD", "isLoading")
	if fn == nil || newTopic == nil || start == nil {
		return
	}
	calls := an.CallsTo(fn, newTopic)
	if len(calls) == 0 {
		c.Und(fn, "created topic is started", fn.Pos(), "GetTopic does not call NewTopic")
		return
	}
	var after []ssa.Instruction
	for _, ci := range calls {
		after = append(after, ci.(ssa.Instruction))
	}
	q := &an.PathQ{Fn: fn, StartAfter: after, Sink: an.IsReturn,
		Cut: func(in ssa.Instruction, _ *an.PathState) bool { return isCallToOn(in, start, nil) },
		CutEdge: func(e an.Edge, st *an.PathState) bool {
			// loading: LoadMetadata starts the topic itself
			for _, cmp := range st.CmpsOnEdge(e) {
				if cmp.Op == token.EQL && atomicLoadOf(cmp.X, loadingF) {
					if k, isC := an.ConstInt(cmp.Y); isC && k == 1 {
						return true
					}
				}
			}
			return false
		}}
	w, f := q.Find()
	if f {
		c.Bad(fn, "created topic is started", calls[0].Pos(), "GetTopic can return a topic it just created without Start() (e.g. when the lookupd query failed): publishes are acknowledged and queued, but the pump never copies them to any channel", w)
	} else {
		c.OK(fn, "created topic is started", calls[0].Pos(), "")
	}
}

// ---- C02.idparse -----------------------------------------------------------------------------------------------

func c02idparse(c *an.Ctx) {
	fn := c.Fn("nsqd", "getMessageID")
	if fn == nil {
		return
	}
	q := &an.PathQ{Fn: fn, StartEntry: true,
		Sink: func(in ssa.Instruction, st *an.PathState) bool {
			r, ok := in.(*ssa.Return)
			return ok && !sinkSuccessReturn(in, st) && r != nil
		},
		CutEdge: func(e an.Edge, st *an.PathState) bool {
			for _, cmp := range st.CmpsOnEdge(e) {
				if cmp.Op != token.NEQ {
					continue
				}
				if a := lenArgOf(cmp.X); a != nil && isParam(a, fn, 0) {
					return true
				}
				if a := lenArgOf(cmp.Y); a != nil && isParam(a, fn, 0) {
					return true
				}
			}
			return false
		}}
	w, f := q.Find()
	if f {
		c.Bad(fn, "id refused only for its length", fn.Pos(), "getMessageID can refuse a 16-byte id (FIN/REQ/TOUCH then answer the fatal E_INVALID and close the connection): an id the connection does not hold must get the non-fatal E_*_FAILED, and the messages it does hold are orphaned until they time out", w)
	} else {
		c.OK(fn, "id refused only for its length", fn.Pos(), "")
	}
}

// ---- C04.scanall -----------------------------------------------------------------------------------------------

func c04scanall(c *an.Ctx) {
	fn := c.Fn("nsqd", "(*NSQD).channels")
	topicMap := c.P.Field("nsqd", "NSQD", "topicMap")
	chanMap := c.P.Field("nsqd", "Topic", "channelMap")
	if fn == nil || topicMap == nil || chanMap == nil {
		return
	}
	outer := mapRangeLoops(fn, topicMap)
	inner := mapRangeLoops(fn, chanMap)
	if len(outer) == 0 || len(inner) == 0 {
		c.Bad(fn, "every topic's channels listed", fn.Pos(), "channels() does not range over topicMap and each topic's channelMap", nil)
		return
	}
	for _, ol := range outer {
		onlyEx, _ := ol.OnlyExhaustionExit()
		q := &an.PathQ{Fn: fn, StartEdges: []an.Edge{{From: ol.Header, To: ol.Body}},
			SinkEdge: func(e an.Edge, _ *an.PathState) bool { return e.To == ol.Header },
			Cut: func(in ssa.Instruction, _ *an.PathState) bool {
				for _, il := range inner {
					if in == ssa.Instruction(il.Iter) {
						return true
					}
				}
				return false
			}}
		w, f := q.Find()
		if f || !onlyEx {
			c.Bad(fn, "every topic's channels listed", ol.Iter.Pos(), "a topic can be skipped when the scanner's channel list is built (e.g. a paused topic): its channels still serve consumers, but their in-flight timeouts and deferred messages are never processed", w)
		} else {
			c.OK(fn, "every topic's channels listed", ol.Iter.Pos(), "")
		}
	}
	for _, il := range inner {
		ok, why := loopDoesEach(fn, il, func(in ssa.Instruction, elems []ssa.Value) bool {
			call, isCall := in.(*ssa.Call)
			if !isCall {
				return false
			}
			bi, isBI := call.Call.Value.(*ssa.Builtin)
			return isBI && bi.Name() == "append"
		})
		c.Check(ok, fn, "every channel appended", il.Iter.Pos(), "", "channels() does not append every channel of a topic: "+why)
	}
}

// ---- C05.closeflush --------------------------------------------------------------------------------------------

func c05closeflush(c *an.Ctx) {
	for _, typ := range []string{"Topic", "Channel"} {
		fn := c.Fn("nsqd", "(*"+typ+").exit")
		flush := c.Fn("nsqd", "(*"+typ+").flush")
		if fn == nil || flush == nil {
			continue
		}
		backendF := c.P.Field("nsqd", typ, "backend")
		var claimed []an.Edge
		an.Instrs(fn, func(in ssa.Instruction) {
			call, ok := in.(*ssa.Call)
			if !ok || !an.StdCallee(call, "sync/atomic", "CompareAndSwapInt32") {
				return
			}
			for _, t := range an.BoolTests(call) {
				claimed = append(claimed, t.True)
			}
		})
		if len(claimed) == 0 {
			c.Und(fn, "no return before flush and backend.Close", fn.Pos(), "the exit flag is not claimed with CompareAndSwapInt32")
			continue
		}
		consts := paramConst(fn, 1, false)
		bad := ""
		var w []string
		for _, step := range []struct {
			name string
			is   func(in ssa.Instruction, _ *an.PathState) bool
		}{
			{"flush", func(in ssa.Instruction, _ *an.PathState) bool { return isCallToOn(in, flush, nil) }},
			{"backend.Close", func(in ssa.Instruction, _ *an.PathState) bool {
				return isInvokeOn(in, "BackendQueue", "Close", func(v ssa.Value) bool { return isLoadOfField(v, backendF) })
			}},
		} {
			q := &an.PathQ{Fn: fn, StartEdges: claimed, Consts: consts, AllConsts: true, Sink: an.IsReturn, Cut: step.is}
			if ww, f := q.Find(); f && bad == "" {
				bad, w = step.name, ww
			}
		}
		if bad != "" {
			c.Bad(fn, "no return before flush and backend.Close", fn.Pos(), typ+".exit(false) can return (an error return counts) after it claimed the exit flag but before "+bad+": NSQD.Exit ignores the error, so whatever sits in the memory queue is lost over the restart", w)
		} else {
			c.OK(fn, "no return before flush and backend.Close", fn.Pos(), "")
		}
	}
}

// ---- C05.loadall -----------------------------------------------------------------------------------------------

func c05loadall(c *an.Ctx) {
	fn := c.Fn("nsqd", "(*NSQD).LoadMetadata")
	if fn == nil {
		return
	}
	n := 0
	for _, l := range an.NaturalLoops(fn) {
		il, ok := an.AsIndexLoop(l)
		if !ok || il.Slice == nil {
			continue
		}
		f, _ := an.LoadedField(an.Strip(il.Slice))
		if f == nil || (f.Name() != "Topics" && f.Name() != "Channels") {
			continue
		}
		n++
		onlyEx, exits := il.OnlyExhaustionExit()
		c.Check(onlyEx, fn, "loop over "+f.Name()+" visits every entry", il.Header.Instrs[0].Pos(), "", sprintf("the loop over the loaded %s can be left before the last entry (%d early exits): an entry with a name that is not accepted must be skipped, not end the restoration of the entries after it – they vanish from the daemon, and the next persist makes that permanent", f.Name(), len(exits)))
	}
	if n < 2 {
		c.Und(fn, "loops over the loaded topics and channels", fn.Pos(), sprintf("expected loops over Metadata.Topics and TopicMetadata.Channels, found %d", n))
	}
}

// ---- C08.deleter -----------------------------------------------------------------------------------------------

func c08deleter(c *an.Ctx) {
	n := 0
	for _, typ := range []string{"Channel", "Topic"} {
		cbF := c.P.Field("nsqd", typ, "deleteCallback")
		if cbF == nil {
			continue
		}
		for _, fn := range c.P.PkgFuncs("nsqd") {
			an.Instrs(fn, func(in ssa.Instruction) {
				ci, ok := in.(ssa.CallInstruction)
				if !ok || !an.StdCallee(ci, "sync", "(*Once).Do") {
					return
				}
				args := ci.Common().Args
				if len(args) < 2 {
					return
				}
				mc, ok := args[1].(*ssa.MakeClosure)
				if !ok {
					return
				}
				body, ok := mc.Fn.(*ssa.Function)
				if !ok {
					return
				}
				calls := false
				isCB := func(x ssa.Instruction, _ *an.PathState) bool {
					call, ok := x.(*ssa.Call)
					if !ok || call.Call.IsInvoke() {
						return false
					}
					return isLoadOfField(call.Call.Value, cbF)
				}
				an.Instrs(body, func(x ssa.Instruction) {
					if isCB(x, nil) {
						calls = true
					}
				})
				if !calls {
					return
				}
				n++
				q := &an.PathQ{Fn: body, StartEntry: true, Sink: an.IsReturn, Cut: isCB}
				w, f := q.Find()
				if f {
					c.Bad(fn, "once-only delete always deletes", in.Pos(), "the function given to deleter.Do can return without deleteCallback: the Once is spent, so the ephemeral "+strings.ToLower(typ)+" is never deleted by a later last-consumer departure and stays registered forever", w)
				} else {
					c.OK(fn, "once-only delete always deletes", in.Pos(), "")
				}
			})
		}
	}
	if n == 0 {
		c.Anchor("a deleter.Do(func(){ deleteCallback }) site in nsqd")
	}
}

// ---- C09.magic -------------------------------------------------------------------------------------------------

func c09magic(pkg string) func(c *an.Ctx) {
	return func(c *an.Ctx) {
		fn := c.Fn(pkg, "(*tcpServer).Handle")
		if fn == nil {
			return
		}
		// the value switched on as the magic: a string conversion of a byte slice
		n := 0
		an.Instrs(fn, func(in ssa.Instruction) {
			cv, ok := in.(*ssa.Convert)
			if !ok {
				return
			}
			if b, isB := cv.Type().Underlying().(*types.Basic); !isB || b.Kind() != types.String {
				return
			}
			if _, isSlice := cv.X.Type().Underlying().(*types.Slice); !isSlice {
				return
			}
			// compared with a 4-character constant somewhere?
			isMagic := false
			for _, r := range an.Referrers(cv) {
				if b, ok := r.(*ssa.BinOp); ok && (b.Op == token.EQL || b.Op == token.NEQ) {
					if s, ok := an.ConstString(b.Y); ok && len(s) == 4 {
						isMagic = true
					}
					if s, ok := an.ConstString(b.X); ok && len(s) == 4 {
						isMagic = true
					}
				}
			}
			if !isMagic {
				return
			}
			n++
			good := false
			why := "the buffer is not filled by io.ReadFull"
			// the converted value must be the very slice handed to io.ReadFull (no re-slicing by a byte count)
			an.Instrs(fn, func(x ssa.Instruction) {
				call, ok := x.(*ssa.Call)
				if ok && an.StdCallee(call, "io", "ReadFull") && len(call.Call.Args) == 2 && call.Call.Args[1] == cv.X && call.Block().Dominates(cv.Block()) {
					good = true
				}
			})
			if sl, ok := cv.X.(*ssa.Slice); ok && !good && sl.High != nil {
				why = "the magic is the part of the buffer that a single Read happened to fill"
			}
			c.Check(good, fn, "magic read in full", cv.Pos(), "", why+": when the four magic bytes arrive in two TCP segments a valid client is answered E_BAD_PROTOCOL and disconnected")
		})
		if n == 0 {
			c.Und(fn, "magic read in full", fn.Pos(), "no comparison of the connection's first bytes with a 4-byte magic found")
		}
	}
}

// ---- C10.pausepath ---------------------------------------------------------------------------------------------

func c10pausepath(c *an.Ctx) {
	pathF := c.P.Field("net/url", "URL", "Path")
	for _, name := range []string{"(*httpServer).doPauseTopic", "(*httpServer).doPauseChannel"} {
		fn := c.Fn("nsqd", name)
		if fn == nil {
			continue
		}
		n := 0
		an.Instrs(fn, func(in ssa.Instruction) {
			call, ok := in.(*ssa.Call)
			if !ok || !an.StdCallee(call, "strings", "Contains") {
				return
			}
			if s, ok := an.ConstString(call.Call.Args[1]); !ok || s != "unpause" {
				return
			}
			n++
			good := an.OriginsAll(call.Call.Args[0], func(o ssa.Value) bool {
				f, _ := an.LoadedField(o)
				return f != nil && f.Name() == "Path" && (pathF == nil || f == pathF)
			})
			c.Check(good, fn, "pause/unpause decided by the route path", call.Pos(), "", "the string searched for \"unpause\" is not req.URL.Path (it includes the query): POST /topic/pause?topic=auto_unpause unpauses, answers 200 and persists the wrong state")
		})
		if n == 0 {
			// a handler per route needs no such test
			c.OK(fn, "pause/unpause decided by the route path", fn.Pos(), "no substring test")
		}
	}
}

// ---- C13.statsd ------------------------------------------------------------------------------------------------

// c13statsd: in statsdLoop a whole TopicStats / ChannelStats value taken from a slice (the previous collection) is stored
// into a local only where `elem.<Name> == current.<Name>` is known.
func c13statsd(c *an.Ctx) {
	fn := c.Fn("nsqd", "(*NSQD).statsdLoop")
	if fn == nil {
		return
	}
	n := 0
	for _, spec := range []struct{ typ, name string }{{"TopicStats", "TopicName"}, {"ChannelStats", "ChannelName"}} {
		nt := c.P.Named("nsqd", spec.typ)
		nameF := c.P.Field("nsqd", spec.typ, spec.name)
		if nt == nil || nameF == nil {
			c.Anchor("nsqd." + spec.typ + "." + spec.name)
			continue
		}
		// the lookup behind a helper (`lastTopic := findTopicStats(last.Topics, topic.TopicName)`): every element the
		// helper returns is returned where the names are known to be equal
		an.Instrs(fn, func(in ssa.Instruction) {
			st, ok := in.(*ssa.Store)
			if !ok || !types.Identical(st.Val.Type(), nt) {
				return
			}
			call, ok := st.Val.(*ssa.Call)
			if !ok {
				return
			}
			h := an.StaticCallee(call)
			if h == nil || h.Pkg != fn.Pkg || h.Blocks == nil {
				return
			}
			for _, r := range an.Returns(h) {
				if len(r.Results) == 0 || !types.Identical(r.Results[0].Type(), nt) {
					continue
				}
				if sliceElemLoad(r.Results[0]) == nil {
					continue // the zero value of "not found"
				}
				n++
				good := false
				for _, cmp := range an.CmpsAt(r.Block()) {
					if cmp.Op != token.EQL {
						continue
					}
					fx, _ := an.LoadedField(an.Strip(cmp.X))
					fy, _ := an.LoadedField(an.Strip(cmp.Y))
					if fx == nameF || fy == nameF {
						good = true
					}
				}
				c.Check(good, fn, "previous "+spec.typ+" matched by name", r.Pos(), "", an.FnName(h)+" returns an element of the previous collection where its "+spec.name+" is not known to equal the name looked for: the statsd deltas of one "+spec.typ+" are computed against another's counters")
			}
		})
		// the found element merged with the "not found" zero value before it reaches the base cell (a result variable of an
		// inlined lookup): each element operand arrives over an edge on which the names are known to be equal
		an.Instrs(fn, func(in ssa.Instruction) {
			st, ok := in.(*ssa.Store)
			if !ok || !types.Identical(st.Val.Type(), nt) {
				return
			}
			phi, ok := st.Val.(*ssa.Phi)
			if !ok {
				return
			}
			al, ok := st.Addr.(*ssa.Alloc)
			if !ok || !cellIsDeltaBase(al) {
				return
			}
			isName := func(v ssa.Value) bool {
				if f, _ := an.LoadedField(an.Strip(v)); f == nameF {
					return true
				}
				for _, o := range originsOrNone(v) {
					if f, _ := an.LoadedField(an.Strip(o)); f == nameF {
						return true
					}
				}
				return false
			}
			for i, e := range phi.Edges {
				if sliceElemLoad(e) == nil {
					continue
				}
				n++
				good := false
				// the facts that hold where the operand was produced and on the way into the merge
				cmps := append(an.CmpsAt(phi.Block().Preds[i]), an.CmpsOnEdge(an.Edge{From: phi.Block().Preds[i], To: phi.Block()})...)
				if ld, ok := e.(ssa.Instruction); ok {
					cmps = append(cmps, an.CmpsAt(ld.Block())...)
				}
				for _, cmp := range cmps {
					if cmp.Op == token.EQL && isName(cmp.X) && isName(cmp.Y) {
						good = true
					}
				}
				c.Check(good, fn, "previous "+spec.typ+" matched by name", st.Pos(), "", "a "+spec.typ+" of the previous collection reaches the base of the statsd deltas over a path on which its "+spec.name+" is not known to equal the current one's")
			}
		})
		an.Instrs(fn, func(in ssa.Instruction) {
			st, ok := in.(*ssa.Store)
			if !ok || !types.Identical(st.Val.Type(), nt) {
				return
			}
			// value = element of a slice (s[i]) – possibly through the range variable's cell
			elemLoad := func(v ssa.Value) *ssa.IndexAddr {
				for i := 0; i < 4; i++ {
					u, ok := v.(*ssa.UnOp)
					if !ok || u.Op != token.MUL {
						return nil
					}
					if ia, ok := u.X.(*ssa.IndexAddr); ok {
						return ia
					}
					al, ok := u.X.(*ssa.Alloc)
					if !ok {
						return nil
					}
					var sv ssa.Value
					cnt := 0
					for _, r := range an.Referrers(al) {
						if s2, ok := r.(*ssa.Store); ok && s2.Addr == ssa.Value(al) {
							sv = s2.Val
							cnt++
						}
					}
					if cnt != 1 {
						return nil
					}
					v = sv
				}
				return nil
			}
			ia := elemLoad(st.Val)
			if ia == nil {
				return
			}
			// only cells that serve as the base of a delta: some `cur.X - cell.X`
			al, ok := st.Addr.(*ssa.Alloc)
			if !ok {
				return
			}
			isBase := false
			for _, r := range an.Referrers(al) {
				fa, ok := r.(*ssa.FieldAddr)
				if !ok {
					continue
				}
				for _, r2 := range an.Referrers(fa) {
					ld, ok := r2.(*ssa.UnOp)
					if !ok {
						continue
					}
					for _, r3 := range an.Referrers(ld) {
						if b, ok := r3.(*ssa.BinOp); ok && b.Op == token.SUB && b.Y == ssa.Value(ld) {
							isBase = true
						}
					}
				}
			}
			directElem := false
			if u, ok := st.Val.(*ssa.UnOp); ok {
				_, directElem = u.X.(*ssa.IndexAddr)
			}
			if !isBase && !directElem {
				// … or a result cell that is copied whole into such a base (`lastTopic := found`); the range variable's own
				// cell (filled straight from the slice on every iteration) is not one
				for _, r := range an.Referrers(al) {
					ld, ok := r.(*ssa.UnOp)
					if !ok || ld.Op != token.MUL {
						continue
					}
					for _, r2 := range an.Referrers(ld) {
						if s2, ok := r2.(*ssa.Store); ok && s2.Val == ssa.Value(ld) {
							if al2, ok := s2.Addr.(*ssa.Alloc); ok && cellIsDeltaBase(al2) {
								isBase = true
							}
						}
					}
				}
			}
			if !isBase {
				return
			}
			n++
			good := false
			isName := func(v ssa.Value) bool {
				if f, _ := an.LoadedField(an.Strip(v)); f == nameF {
					return true
				}
				// the name looked for, held in a local
				for _, o := range originsOrNone(v) {
					if f, _ := an.LoadedField(an.Strip(o)); f == nameF {
						return true
					}
				}
				return false
			}
			for _, cmp := range an.CmpsAt(st.Block()) {
				if cmp.Op != token.EQL {
					continue
				}
				if isName(cmp.X) && isName(cmp.Y) {
					good = true
				}
			}
			c.Check(good, fn, "previous "+spec.typ+" matched by name", st.Pos(), "", "a "+spec.typ+" of the previous collection is used as the base of the statsd deltas without `"+spec.name+" == "+spec.name+"` being known (e.g. the first entry that sorts >= the name): a new topic/channel is measured against a sibling's counters and a negative increment is pushed")
		})
	}
	if n == 0 {
		c.Anchor("a previous-collection lookup in nsqd.(*NSQD).statsdLoop")
	}
}

// ---- C14.tombstoneall ------------------------------------------------------------------------------------------

func c14tombstoneall(c *an.Ctx) {
	fn := c.Fn("nsqlookupd", "(*httpServer).doTombstoneTopicProducer")
	tomb := c.Fn("nsqlookupd", "(*Producer).Tombstone")
	if fn == nil || tomb == nil {
		return
	}
	n := 0
	for _, l := range an.NaturalLoops(fn) {
		il, ok := an.AsIndexLoop(l)
		if !ok {
			continue
		}
		has := false
		for b := range il.Blocks {
			for _, in := range b.Instrs {
				if isCallToOn(in, tomb, nil) {
					has = true
				}
			}
		}
		if !has {
			continue
		}
		n++
		onlyEx, _ := il.OnlyExhaustionExit()
		c.Check(onlyEx, fn, "every producer of the node is tombstoned", fn.Pos(), "", "the tombstone loop stops at the first match: an nsqd that reconnected while its old connection is still registered has two entries with the same node name, one stays visible in /lookup")
	}
	if n == 0 {
		c.Und(fn, "every producer of the node is tombstoned", fn.Pos(), "no loop that calls Producer.Tombstone")
	}
}

// ---- C14.deletetopic -------------------------------------------------------------------------------------------

func c14deletetopic(c *an.Ctx) {
	fn := c.Fn("nsqlookupd", "(*httpServer).doDeleteTopic")
	find := c.Fn("nsqlookupd", "(*RegistrationDB).FindRegistrations")
	keyF := c.P.Field("nsqlookupd", "Registration", "Key")
	if fn == nil || find == nil {
		return
	}
	n := 0
	for _, ci := range an.CallsTo(fn, find) {
		if s, ok := an.ConstString(arg(ci, 0)); !ok || s != "channel" {
			continue
		}
		n++
		fromRegistration := an.OriginsAny(arg(ci, 1), func(o ssa.Value) bool {
			f, _ := an.LoadedField(o)
			if f != nil && keyF != nil && f == keyF {
				return true
			}
			if fl, ok := o.(*ssa.Field); ok && keyF != nil && an.FieldOf(fl) == keyF {
				return true
			}
			return false
		})
		inLoop := an.LoopContaining(an.NaturalLoops(fn), ci.Block()) != nil
		c.Check(!fromRegistration && !inLoop, fn, "channel registrations looked up by the requested name", ci.Pos(), "", "the channel registrations to remove are found through the topic's own registration (inside the loop over topic keys): when the topic key is gone but channel keys remain (an #ephemeral topic whose last producer unregistered the topic), the delete removes nothing and /channels keeps listing them")
	}
	if n == 0 {
		c.Bad(fn, "channel registrations looked up by the requested name", fn.Pos(), "doDeleteTopic never looks up the topic's channel registrations", nil)
	}
}

// ---- C16.timeout -----------------------------------------------------------------------------------------------

func c16timeout(c *an.Ctx) {
	fn := c.Fn("internal/http_api", "NewClient")
	tf := c.P.Field("net/http", "Client", "Timeout")
	if fn == nil {
		return
	}
	good := false
	an.Instrs(fn, func(in ssa.Instruction) {
		st, ok := in.(*ssa.Store)
		if !ok {
			return
		}
		fa, ok := st.Addr.(*ssa.FieldAddr)
		if !ok {
			return
		}
		f := an.FieldOf(fa)
		if f == nil || f.Name() != "Timeout" || (tf != nil && f != tf) {
			return
		}
		if isParam(st.Val, fn, 2) {
			good = true
		}
	})
	c.Check(good, fn, "whole-request timeout set", fn.Pos(), "", "http.Client.Timeout is not set to the request timeout: the transport's deadlines stop counting once the response headers arrived, so an upstream that stalls mid-body blocks the caller forever (GetTopic never starts the topic; nsqadmin's fan-in never completes)")
}

// ---- C17.adminwrite --------------------------------------------------------------------------------------------

func c17adminwrite(c *an.Ctx) {
	f := c.P.Field("nsqadmin", "Options", "AdminUsers")
	if f == nil {
		c.Anchor("nsqadmin.Options.AdminUsers")
		return
	}
	n := 0
	var fromAdmin func(v ssa.Value, d int) bool
	fromAdmin = func(v ssa.Value, d int) bool {
		if d > 5 {
			return false
		}
		return an.OriginsAll(v, func(o ssa.Value) bool {
			if lf, _ := an.LoadedField(o); lf == f {
				return true
			}
			if k, ok := o.(*ssa.Const); ok && k.IsNil() {
				return true
			}
			switch x := o.(type) {
			case *ssa.MakeSlice, *ssa.Alloc:
				return true
			case *ssa.Call:
				if bi, ok := x.Call.Value.(*ssa.Builtin); ok && bi.Name() == "append" {
					for _, a := range x.Call.Args {
						if !fromAdmin(a, d+1) {
							return false
						}
					}
					return true
				}
			}
			return false
		})
	}
	for _, pkg := range []string{"nsqadmin", "apps/nsqadmin"} {
		for _, fn := range c.P.PkgFuncs(pkg) {
			an.Instrs(fn, func(in ssa.Instruction) {
				st, ok := in.(*ssa.Store)
				if !ok {
					return
				}
				fa, ok := st.Addr.(*ssa.FieldAddr)
				if !ok || an.FieldOf(fa) != f {
					return
				}
				n++
				c.Check(fromAdmin(st.Val, 0), fn, "AdminUsers written from AdminUsers", st.Pos(), "", "Options.AdminUsers is filled from something other than an AdminUsers list (a copy helper that reads the wrong field empties or replaces the admin list: after the next PUT /config nobody – or everybody – is an admin)")
			})
		}
	}
	if n == 0 {
		c.Anchor("a store to nsqadmin.Options.AdminUsers")
	}
}

// ---- C18.mode --------------------------------------------------------------------------------------------------

func c18mode(c *an.Ctx) {
	for _, spec := range []struct {
		fn              string
		lookupd, direct string
		lookupIdx       int
	}{
		{"(*ClusterInfo).GetTopicProducers", "(*ClusterInfo).GetLookupdTopicProducers", "(*ClusterInfo).GetNSQDTopicProducers", 2},
		{"(*ClusterInfo).GetProducers", "(*ClusterInfo).GetLookupdProducers", "(*ClusterInfo).GetNSQDProducers", 1},
	} {
		fn := c.Fn("internal/clusterinfo", spec.fn)
		lk := c.Fn("internal/clusterinfo", spec.lookupd)
		dr := c.Fn("internal/clusterinfo", spec.direct)
		if fn == nil || lk == nil || dr == nil {
			continue
		}
		isLenLookupd := func(v ssa.Value) bool {
			a := lenArgOf(v)
			return a != nil && isParam(a, fn, spec.lookupIdx)
		}
		nonEmpty := func(cmps []an.Cmp) bool {
			for _, cmp := range cmps {
				if !isLenLookupd(cmp.X) {
					continue
				}
				k, isC := an.ConstInt(cmp.Y)
				if isC && ((cmp.Op == token.NEQ && k == 0) || (cmp.Op == token.GTR && k == 0) || (cmp.Op == token.GEQ && k == 1)) {
					return true
				}
			}
			return false
		}
		empty := func(cmps []an.Cmp) bool {
			for _, cmp := range cmps {
				if !isLenLookupd(cmp.X) {
					continue
				}
				k, isC := an.ConstInt(cmp.Y)
				if isC && ((cmp.Op == token.EQL && k == 0) || (cmp.Op == token.LEQ && k == 0) || (cmp.Op == token.LSS && k == 1)) {
					return true
				}
			}
			return false
		}
		good := true
		static := func(target *ssa.Function) []ssa.CallInstruction {
			var out []ssa.CallInstruction
			for _, ci := range an.CallsTo(fn, target) {
				if an.StaticCallee(ci) == target {
					out = append(out, ci)
				}
			}
			return out
		}
		for _, ci := range static(lk) {
			if !nonEmpty(an.CmpsAt(ci.Block())) {
				good = false
			}
		}
		for _, ci := range static(dr) {
			if !empty(an.CmpsAt(ci.Block())) {
				good = false
			}
		}
		if len(static(lk)) == 0 || len(static(dr)) == 0 {
			good = false
			// the mode chosen as a method value (`fetch := c.direct; if len(lookupd) != 0 { fetch = c.lookupd }; fetch(…)`):
			// at the call, the value selected on the path is the lookupd method only past a non-empty test, the direct one
			// only past an empty test
			var dyn []ssa.CallInstruction
			for _, ci := range an.CallsIn(fn, func(ci ssa.CallInstruction) bool {
				if ci.Common().IsInvoke() || an.StaticCallee(ci) != nil {
					return false
				}
				hasLk, hasDr := false, false
				for _, o := range originsOrNone(ci.Common().Value) {
					if mc, ok := an.Strip(o).(*ssa.MakeClosure); ok {
						if f, ok := mc.Fn.(*ssa.Function); ok {
							switch an.BoundMethod(f) {
							case lk:
								hasLk = true
							case dr:
								hasDr = true
							}
						}
					}
				}
				return hasLk && hasDr
			}) {
				dyn = append(dyn, ci)
			}
			if len(dyn) > 0 {
				good = true
				for _, dc := range dyn {
					for _, side := range []struct {
						target *ssa.Function
						ok     func([]an.Cmp) bool
					}{{lk, nonEmpty}, {dr, empty}} {
						side := side
						q := &an.PathQ{Fn: fn, StartEntry: true, AllAlias: true, FullOnly: true,
							Sink: func(in ssa.Instruction, ps *an.PathState) bool {
								if in != dc.(ssa.Instruction) {
									return false
								}
								v := dc.Common().Value
								if sel := ps.Selected(v); sel != nil {
									v = sel
								}
								mc, ok := an.Strip(v).(*ssa.MakeClosure)
								if !ok {
									return true // not resolved on this path: undecided counts against
								}
								f, _ := mc.Fn.(*ssa.Function)
								return f != nil && an.BoundMethod(f) == side.target
							},
							CutEdge: func(e an.Edge, ps *an.PathState) bool { return side.ok(ps.CmpsOnEdge(e)) }}
						if _, found := q.Find(); found {
							good = false
						}
					}
				}
			}
		}
		c.Check(good, fn, "lookupd mode iff lookupd addresses are configured", fn.Pos(), "", "the choice between lookupd and direct-nsqd mode is not `len(lookupdHTTPAddrs) != 0` (as everywhere else): after PUT /config/nsqlookupd_http_addresses on an nsqadmin started in direct mode the topic and channel views sum only the static nsqd list while /api/topics and /api/nodes show the whole cluster")
	}
}

// ---- C20.pertopic ----------------------------------------------------------------------------------------------

func c20pertopic(c *an.Ctx) {
	f := c.P.Field("apps/nsq_to_nsq", "TopicHandler", "destinationTopic")
	if f == nil {
		c.Anchor("apps/nsq_to_nsq.TopicHandler.destinationTopic")
		return
	}
	n := 0
	for _, fn := range c.P.PkgFuncs("apps/nsq_to_nsq") {
		loops := an.NaturalLoops(fn)
		an.Instrs(fn, func(in ssa.Instruction) {
			st, ok := in.(*ssa.Store)
			if !ok {
				return
			}
			fa, ok := st.Addr.(*ssa.FieldAddr)
			if !ok || an.FieldOf(fa) != f {
				return
			}
			n++
			l := an.LoopContaining(loops, st.Block())
			good := true
			if l != nil {
				// the handler object must be made in the same iteration
				good = an.OriginsAll(fa.X, func(o ssa.Value) bool {
					oi, ok := o.(ssa.Instruction)
					return ok && l.Blocks[oi.Block()]
				})
			}
			c.Check(good, fn, "handler allocated per topic", st.Pos(), "", "the destination topic is written, once per consumed topic, into a handler object shared by all consumers: every topic's messages are published to the last topic's name and finished at the source")
		})
	}
	if n == 0 {
		c.Anchor("a store to apps/nsq_to_nsq.TopicHandler.destinationTopic")
	}
}

// sliceElemLoad: v is a load of a slice element (s[i]), possibly through the range variable's cell.
func sliceElemLoad(v ssa.Value) *ssa.IndexAddr {
	for i := 0; i < 4; i++ {
		u, ok := v.(*ssa.UnOp)
		if !ok || u.Op != token.MUL {
			return nil
		}
		if ia, ok := u.X.(*ssa.IndexAddr); ok {
			return ia
		}
		al, ok := u.X.(*ssa.Alloc)
		if !ok {
			return nil
		}
		var sv ssa.Value
		cnt := 0
		for _, r := range an.Referrers(al) {
			if s2, ok := r.(*ssa.Store); ok && s2.Addr == ssa.Value(al) {
				sv = s2.Val
				cnt++
			}
		}
		if cnt != 1 {
			return nil
		}
		v = sv
	}
	return nil
}

// cellIsDeltaBase: some field of the local struct cell is the subtrahend of a difference (`cur.X - cell.X`).
func cellIsDeltaBase(al *ssa.Alloc) bool {
	for _, r := range an.Referrers(al) {
		fa, ok := r.(*ssa.FieldAddr)
		if !ok {
			continue
		}
		for _, r2 := range an.Referrers(fa) {
			ld, ok := r2.(*ssa.UnOp)
			if !ok {
				continue
			}
			for _, r3 := range an.Referrers(ld) {
				if b, ok := r3.(*ssa.BinOp); ok && b.Op == token.SUB && b.Y == ssa.Value(ld) {
					return true
				}
			}
		}
	}
	return false
}
