package rules

import (
	"go/token"
	"go/types"

	"golang.org/x/tools/go/ssa"

	"nsqverif/an"
)

func init() {
	Props["C04"] = PropInfo{
		Explanation: "Decides: (parse) overflow-freedom of every arithmetic step between the digits a client sends and the time.Duration / count the daemon uses (interval analysis over ByteToBase10, REQ, DPUB, RDY, doPUB and the IDENTIFY setters; this part is a complete argument for 'every way of writing the number'); " +
			"(range) DPUB and /pub?defer reject exactly d < 0 or d > max-req-timeout, REQ clamps into [0, max-req-timeout], for both spellings; " +
			"(early) both PeekAndShift remove the head only if its deadline <= the scan's now, now is time.Now() taken by the scan worker, deadlines are time.Now().Add(timeout); " +
			"(touchcap) TOUCH stores min(now+msg_timeout, deliveryTS+max-msg-timeout); (heap) both heaps are min-heaps on the key the scan compares.",
		NotDecided:  "'delivered soon after' / 'boundedly late' (probabilistic scan schedule, wall clock); correctness of sift-up/down for all heap contents.",
		Assumptions: []string{"time.Now is monotone enough for Add/Sub/UnixNano (std lib)", "option values are within the ranges nsqd's flag parsing allows (Durations non-negative)"},
	}
	reg("C04.parse", "IVAL", "no arithmetic on a client-supplied number can overflow between parsing and use", 6, c04parse)
	reg("C04.range", "GUARD", "deferred-publish delay rejected outside [0, MaxReqTimeout] (TCP and HTTP alike); REQ delay clamped into that range", 5, c04range)
	reg("C04.early", "GUARD+ORIG", "scan removes a heap head only when deadline <= now; now = time.Now() of the scan worker; deadlines = time.Now().Add(timeout)", 8, c04early)
	reg("C04.fanout", "PATH", "a deferred publish stays deferred on every channel: the per-channel copy carries the source's deferred delay", 2, func(c *an.Ctx) {
		if f := c.P.Field("nsqd", "Message", "deferred"); f != nil {
			fanoutCopyKeeps(c, []*types.Var{f})
		} else {
			c.Anchor("nsqd.Message.deferred")
		}
	})
	reg("C04.touchcap", "GUARD+ORIG", "TOUCH deadline is capped at deliveryTS + MaxMsgTimeout", 2, c04touchcap)
	reg("C04.heap", "SHAPE", "both deadline heaps are min-heaps on the compared key", 3, c04heap)
}

// taintedArith returns the arithmetic BinOps of fn that (transitively) depend on a taint source.
func taintedArith(fn *ssa.Function, isSource func(ssa.Value) bool) []*ssa.BinOp {
	tainted := map[ssa.Value]bool{}
	changed := true
	for changed {
		changed = false
		an.Instrs(fn, func(in ssa.Instruction) {
			v, ok := in.(ssa.Value)
			if !ok || tainted[v] {
				return
			}
			t := false
			if isSource(v) {
				t = true
			} else {
				switch x := in.(type) {
				case *ssa.Convert:
					t = tainted[x.X]
				case *ssa.ChangeType:
					t = tainted[x.X]
				case *ssa.BinOp:
					t = tainted[x.X] || tainted[x.Y]
				case *ssa.Phi:
					for _, e := range x.Edges {
						if tainted[e] {
							t = true
						}
					}
				case *ssa.Extract:
					t = tainted[x.Tuple]
				}
			}
			if t {
				tainted[v] = true
				changed = true
			}
		})
	}
	for _, p := range fn.Params {
		if isSource(p) {
			tainted[p] = true
		}
	}
	// second pass for params (sources that are not instructions)
	changed = true
	for changed {
		changed = false
		an.Instrs(fn, func(in ssa.Instruction) {
			v, ok := in.(ssa.Value)
			if !ok || tainted[v] {
				return
			}
			t := false
			switch x := in.(type) {
			case *ssa.Convert:
				t = tainted[x.X]
			case *ssa.ChangeType:
				t = tainted[x.X]
			case *ssa.BinOp:
				t = tainted[x.X] || tainted[x.Y]
			case *ssa.Phi:
				for _, e := range x.Edges {
					if tainted[e] {
						t = true
					}
				}
			case *ssa.Extract:
				t = tainted[x.Tuple]
			}
			if t {
				tainted[v] = true
				changed = true
			}
		})
	}
	var out []*ssa.BinOp
	an.Instrs(fn, func(in ssa.Instruction) {
		b, ok := in.(*ssa.BinOp)
		if !ok || !tainted[b] {
			return
		}
		switch b.Op {
		case token.ADD, token.SUB, token.MUL, token.SHL:
			if bt, ok := b.Type().Underlying().(*types.Basic); ok && bt.Info()&types.IsInteger != 0 {
				out = append(out, b)
			}
		}
	})
	return out
}

func wordBits(c *an.Ctx) int {
	if c.P.Config == "linux/386" {
		return 32
	}
	return 64
}

func c04parse(c *an.Ctx) {
	b10 := c.Fn("internal/protocol", "ByteToBase10")
	if b10 == nil {
		return
	}
	isParserCall := func(v ssa.Value) bool {
		call, ok := v.(*ssa.Call)
		if !ok {
			return false
		}
		if an.IsCallTo(call, b10) {
			return true
		}
		return an.StdCallee(call, "strconv", "ParseInt") || an.StdCallee(call, "strconv", "Atoi") || an.StdCallee(call, "strconv", "ParseUint")
	}
	type scope struct {
		fn     *ssa.Function
		source func(ssa.Value) bool
	}
	var scopes []scope
	seen := map[*ssa.Function]bool{}
	addScope := func(fn *ssa.Function, src func(ssa.Value) bool) {
		if fn == nil || seen[fn] {
			return
		}
		seen[fn] = true
		scopes = append(scopes, scope{fn, src})
	}
	// the digit parser itself: every byte of the input is client data
	addScope(b10, func(v ssa.Value) bool {
		u, ok := v.(*ssa.UnOp)
		if !ok || u.Op != token.MUL {
			return false
		}
		ia, ok := u.X.(*ssa.IndexAddr)
		return ok && isParam(ia.X, b10, 0)
	})
	for _, name := range []string{"(*protocolV2).REQ", "(*protocolV2).DPUB", "(*protocolV2).RDY", "(*httpServer).doPUB"} {
		addScope(c.Fn("nsqd", name), isParserCall)
	}
	// IDENTIFY setters: every integer parameter is client data
	for _, name := range []string{"(*clientV2).SetHeartbeatInterval", "(*clientV2).SetOutputBuffer", "(*clientV2).SetMsgTimeout", "(*clientV2).SetSampleRate"} {
		fn := c.Fn("nsqd", name)
		if fn == nil {
			continue
		}
		f := fn
		addScope(fn, func(v ssa.Value) bool {
			p, ok := v.(*ssa.Parameter)
			if !ok || p == f.Params[0] {
				return false
			}
			_, isInt := an.IntRange(p.Type(), 64)
			return isInt
		})
	}
	// helpers that receive a parsed number as an argument (one level): all integer params are tainted
	for i := 0; i < len(scopes); i++ {
		s := scopes[i]
		an.Instrs(s.fn, func(in ssa.Instruction) {
			call, ok := in.(*ssa.Call)
			if !ok {
				return
			}
			cal := an.StaticCallee(call)
			if cal == nil || cal.Pkg == nil || cal.Blocks == nil || seen[cal] {
				return
			}
			if p := cal.Pkg.Pkg.Path(); p != an.ModPath+"/nsqd" && p != an.ModPath+"/internal/protocol" {
				return
			}
			for _, a := range call.Call.Args {
				if _, isInt := an.IntRange(a.Type(), 64); !isInt {
					continue
				}
				fromParser := an.OriginsAny(a, func(o ssa.Value) bool {
					if ex, ok := o.(*ssa.Extract); ok {
						return isParserCall(ex.Tuple)
					}
					return isParserCall(o)
				})
				if fromParser {
					cf := cal
					addScope(cal, func(v ssa.Value) bool {
						p, ok := v.(*ssa.Parameter)
						if !ok {
							return false
						}
						_, isInt := an.IntRange(p.Type(), 64)
						return isInt && (cf.Signature.Recv() == nil || p != cf.Params[0])
					})
				}
			}
		})
	}
	for _, s := range scopes {
		ops := taintedArith(s.fn, func(v ssa.Value) bool {
			if s.source(v) {
				return true
			}
			if ex, ok := v.(*ssa.Extract); ok {
				return s.source(ex.Tuple)
			}
			return false
		})
		iv := an.NewIval(s.fn, wordBits(c))
		bad := map[ssa.Instruction]an.OverflowEvent{}
		for _, ev := range iv.Overflows(ops) {
			bad[ev.Instr] = ev
		}
		for _, op := range ops {
			construct := sprintf("%s on %s", op.Op, op.Type())
			if ev, isBad := bad[op]; isBad {
				c.Bad(s.fn, construct, op.Pos(), sprintf("arithmetic on a client-supplied number can overflow: %s %s %s with operands in %s and %s gives %s, outside %s. "+
					"A huge value then wraps into the accepted range (e.g. delay 18446744073710 ms becomes ~448µs) instead of being rejected/clamped", op.X.Name(), op.Op, op.Y.Name(), ev.X, ev.Y, ev.Result, op.Type()), nil)
			} else {
				c.OK(s.fn, construct, op.Pos(), "")
			}
		}
		if len(ops) == 0 {
			c.OK(s.fn, "no arithmetic on client numbers", s.fn.Pos(), "")
		}
	}
}

// inClampRange: v is within [0, MaxReqTimeout] given facts.
func inReqRange(c *an.Ctx, v ssa.Value, cmps []an.Cmp, depth int) bool {
	if depth > 6 {
		return false
	}
	v = an.Strip(v) // also sees through a field of a local parameter/result struct
	if k, isC := an.ConstInt(v); isC && k == 0 {
		return true
	}
	if isOptsField(c, v, "nsqd", "MaxReqTimeout") {
		return true
	}
	if phi, ok := v.(*ssa.Phi); ok {
		for i, e := range phi.Edges {
			edge := an.Edge{From: phi.Block().Preds[i], To: phi.Block()}
			if !inReqRange(c, e, an.CmpsOnEdge(edge), depth+1) {
				return false
			}
		}
		return true
	}
	lo, hi := false, false
	for _, cmp := range cmps {
		oc, ok := cmp.Oriented(func(x ssa.Value) bool { return x == v || an.Strip(x) == v })
		if !ok {
			continue
		}
		if k, isC := an.ConstInt(oc.Y); isC && ((oc.Op == token.GEQ && k == 0) || (oc.Op == token.GTR && k == -1)) {
			lo = true
		}
		if oc.Op == token.LEQ && isOptsField(c, oc.Y, "nsqd", "MaxReqTimeout") {
			hi = true
		}
		if oc.Op == token.LEQ {
			// v <= w where w is itself a load of MaxReqTimeout into a local
			if an.OriginsAll(oc.Y, func(o ssa.Value) bool { return isOptsField(c, o, "nsqd", "MaxReqTimeout") }) {
				hi = true
			}
		}
		if oc.Op == token.EQL && oc.Y != v {
			// v == w with w in range (facts for w are those at its definition / phi edges)
			var wc []an.Cmp
			if in, ok := oc.Y.(ssa.Instruction); ok && in.Block() != nil {
				wc = an.CmpsAt(in.Block())
			}
			if inReqRange(c, oc.Y, wc, depth+1) {
				return true
			}
		}
	}
	return lo && hi
}

// inReqRangeOnPaths: the stored delay was computed elsewhere and carried here through a request/parameter struct, so no
// dominating fact bounds it at the store – but every path from its computation to the store crosses an edge on which it is
// known to lie in [0, MaxReqTimeout] (the range check sits between the two).
func inReqRangeOnPaths(c *an.Ctx, fn *ssa.Function, st *ssa.Store) bool {
	v := an.Strip(st.Val)
	def, ok := v.(ssa.Instruction)
	if !ok || def.Parent() != fn || def.Block() == nil {
		return false
	}
	if _, isPhi := v.(*ssa.Phi); isPhi {
		return false
	}
	q := &an.PathQ{Fn: fn, StartAfter: []ssa.Instruction{def}, FullOnly: true,
		Sink: func(in ssa.Instruction, _ *an.PathState) bool { return in == ssa.Instruction(st) },
		CutEdge: func(e an.Edge, _ *an.PathState) bool {
			return inReqRange(c, v, an.CmpsOnEdge(e), 1)
		}}
	_, found := q.Find()
	return !found
}

func c04range(c *an.Ctx) {
	defF := c.P.Field("nsqd", "Message", "deferred")
	fatal := c.P.Func("internal/protocol", "NewFatalClientErr")
	// DPUB / doPUB: every store of a non-zero value to msg.deferred is dominated by 0 <= d <= MaxReqTimeout
	for _, name := range []string{"(*protocolV2).DPUB", "(*httpServer).doPUB"} {
		fn := c.Fn("nsqd", name)
		if fn == nil {
			continue
		}
		n := 0
		an.Instrs(fn, func(in ssa.Instruction) {
			st, ok := in.(*ssa.Store)
			if !ok {
				return
			}
			fa, ok := st.Addr.(*ssa.FieldAddr)
			if !ok || an.FieldOf(fa) != defF {
				return
			}
			n++
			good := inReqRange(c, st.Val, an.CmpsAt(st.Block()), 0) || inReqRangeOnPaths(c, fn, st)
			c.Check(good, fn, "deferred delay within [0, MaxReqTimeout]", st.Pos(), "",
				"a deferred publish can store a delay that is not proven to satisfy 0 <= d <= opts.MaxReqTimeout (reject region must be exactly d < 0 || d > MaxReqTimeout, the same for DPUB and /pub?defer)")
		})
		if n == 0 {
			c.Bad(fn, "deferred delay within [0, MaxReqTimeout]", fn.Pos(), "no store to msg.deferred found: the delay is ignored", nil)
		}
	}
	// DPUB's reject arm is fatal E_INVALID: the edges that leave the range guard and cannot reach the store
	if fn := c.Fn("nsqd", "(*protocolV2).DPUB"); fn != nil && fatal != nil {
		var use ssa.Instruction
		var qty ssa.Value
		an.Instrs(fn, func(in ssa.Instruction) {
			if st, ok := in.(*ssa.Store); ok {
				if fa, ok := st.Addr.(*ssa.FieldAddr); ok && an.FieldOf(fa) == defF {
					use, qty = in, an.Strip(st.Val)
				}
			}
		})
		var ifs []*ssa.If
		if use != nil {
			bd := an.BoundsOf(use.Block(), func(x ssa.Value) bool { return x == qty })
			for _, u := range bd.Upper {
				if u.Op == token.LEQ && an.OriginsAll(u.Y, func(o ssa.Value) bool { return isOptsField(c, o, "nsqd", "MaxReqTimeout") }) {
					ifs = append(ifs, u.If)
				}
			}
		}
		var rej []an.Edge
		if use != nil {
			rej = rejectEdgesOf(fn, ifs, use)
		}
		ok, why, w := errReturnsFrom(fn, rej, fatal, "E_INVALID")
		if ok && len(rej) > 0 {
			c.OK(fn, "out-of-range delay => fatal E_INVALID", fn.Pos(), "")
		} else {
			c.Bad(fn, "out-of-range delay => fatal E_INVALID", fn.Pos(), "DPUB with a delay above max-req-timeout is not answered with the fatal E_INVALID: "+why, w)
		}
	}
	// REQ clamp
	if fn := c.Fn("nsqd", "(*protocolV2).REQ"); fn != nil {
		rq := c.Fn("nsqd", "(*Channel).RequeueMessage")
		if rq != nil {
			for _, ci := range an.CallsTo(fn, rq) {
				good := inReqRange(c, arg(ci, 2), an.CmpsAt(ci.Block()), 0)
				c.Check(good, fn, "REQ delay clamped into [0, MaxReqTimeout]", ci.Pos(), "",
					"the delay handed to RequeueMessage is not proven to be clamped into [0, opts.MaxReqTimeout]")
			}
		}
	}
	// RequeueMessage: timeout == 0 => immediate, else deferred with that very timeout
	if fn := c.Fn("nsqd", "(*Channel).RequeueMessage"); fn != nil {
		sd := c.Fn("nsqd", "(*Channel).StartDeferredTimeout")
		if sd != nil {
			good := false
			for _, ci := range an.CallsTo(fn, sd) {
				if isParam(arg(ci, 1), fn, 3) {
					good = true
				}
			}
			c.Check(good, fn, "deferred requeue uses the requested delay", fn.Pos(), "", "RequeueMessage does not pass its timeout argument to StartDeferredTimeout")
		}
	}
	// topic pump: deferred publishes use msg.deferred as the delay
	if fn := c.Fn("nsqd", "(*Topic).messagePump"); fn != nil {
		pd := c.Fn("nsqd", "(*Channel).PutMessageDeferred")
		if pd != nil {
			for _, ci := range an.CallsTo(fn, pd) {
				f, base := an.LoadedField(an.Strip(arg(ci, 1)))
				good := f == defF && an.SameValue(base, arg(ci, 0))
				c.Check(good, fn, "deferred publish uses the message's own delay", ci.Pos(), "", "PutMessageDeferred is not called with the message's own deferred field as the delay")
			}
		}
	}
}

// timeNowAdd: v = time.Now().Add(d) (possibly via a local holding time.Now()); returns d.
func timeNowAdd(v ssa.Value) (ssa.Value, bool) {
	call, ok := an.Strip(v).(*ssa.Call)
	if !ok || !an.StdCallee(call, "time", "(Time).Add") {
		return nil, false
	}
	now, ok := an.Strip(call.Call.Args[0]).(*ssa.Call)
	if !ok || !an.StdCallee(now, "time", "Now") {
		return nil, false
	}
	return call.Call.Args[1], true
}

func unixNanoOf(v ssa.Value) (ssa.Value, bool) {
	call, ok := an.Strip(v).(*ssa.Call)
	if !ok || !an.StdCallee(call, "time", "(Time).UnixNano") {
		return nil, false
	}
	return call.Call.Args[0], true
}

func c04early(c *an.Ctx) {
	for _, spec := range []struct{ pkg, typ, key, remover, removerPkg string }{
		{"nsqd", "inFlightPqueue", "pri", "(*inFlightPqueue).Pop", "nsqd"},
		{"internal/pqueue", "PriorityQueue", "Priority", "Remove", "container/heap"},
	} {
		fn := c.Fn(spec.pkg, "(*"+spec.typ+").PeekAndShift")
		if fn == nil {
			continue
		}
		// removal call
		var removals []ssa.CallInstruction
		for _, ci := range an.CallsIn(fn, func(ci ssa.CallInstruction) bool {
			if spec.removerPkg == "container/heap" {
				return an.StdCallee(ci, "container/heap", "Remove") || an.StdCallee(ci, "container/heap", "Pop")
			}
			t := c.P.Func(spec.pkg, spec.remover)
			t2 := c.P.Func(spec.pkg, "(*"+spec.typ+").Remove")
			return an.IsCallTo(ci, t, t2)
		}) {
			removals = append(removals, ci)
		}
		if len(removals) == 0 {
			c.Bad(fn, "removal only when deadline <= max", fn.Pos(), "PeekAndShift never removes the head", nil)
			continue
		}
		isHeadKey := func(v ssa.Value) bool {
			f, base := an.LoadedField(an.Strip(v))
			if f == nil || f.Name() != spec.key {
				return false
			}
			// base = load of &(*pq)[0]
			u, ok := an.Strip(base).(*ssa.UnOp)
			if !ok {
				return false
			}
			ia, ok := u.X.(*ssa.IndexAddr)
			if !ok {
				return false
			}
			k, isC := an.ConstInt(ia.Index)
			return isC && k == 0
		}
		for _, rm := range removals {
			good := false
			for _, cmp := range an.CmpsAt(rm.Block()) {
				oc, ok := cmp.Oriented(isHeadKey)
				if ok && oc.Op == token.LEQ && isParam(oc.Y, fn, 1) {
					good = true
				}
			}
			c.Check(good, fn, "removal only when deadline <= max", rm.Pos(), "",
				"the heap head can be removed although its deadline is later than the scan time (comparison missing, flipped or against another value): messages time out / are delivered before their delay elapsed")
		}
		// non-nil result only on that edge: every return of a non-nil first result is dominated by the same fact
		for _, rc := range returnCases(fn, 0) {
			r := rc.ret
			if an.IsNilConst(rc.val) {
				continue
			}
			good := false
			for _, f := range rc.facts {
				cmp, isCmp := f.AsCmp()
				if !isCmp {
					continue
				}
				oc, ok := cmp.Oriented(isHeadKey)
				if ok && oc.Op == token.LEQ && isParam(oc.Y, fn, 1) {
					good = true
				}
			}
			c.Check(good, fn, "returns an item only when deadline <= max", r.Pos(), "", "PeekAndShift can return an item whose deadline has not passed")
		}
	}
	// scan functions pass their time parameter; worker passes time.Now().UnixNano() to both
	for _, name := range []string{"(*Channel).processInFlightQueue", "(*Channel).processDeferredQueue"} {
		fn := c.Fn("nsqd", name)
		if fn == nil {
			continue
		}
		for _, ci := range an.CallsIn(fn, func(ci ssa.CallInstruction) bool {
			f := an.StaticCallee(ci)
			return f != nil && an.BaseName(f) == "PeekAndShift"
		}) {
			c.Check(isParam(arg(ci, 0), fn, 1), fn, "scan compares against its time argument", ci.Pos(), "", "PeekAndShift is not given the scan's time argument unchanged (e.g. now+interval would fire early)")
		}
	}
	if w := c.Fn("nsqd", "(*NSQD).queueScanWorker"); w != nil {
		for _, name := range []string{"(*Channel).processInFlightQueue", "(*Channel).processDeferredQueue"} {
			t := c.P.Func("nsqd", name)
			for _, ci := range an.CallsTo(w, t) {
				tv, ok := unixNanoOf(arg(ci, 0))
				good := false
				if ok {
					if now, ok := an.Strip(tv).(*ssa.Call); ok && an.StdCallee(now, "time", "Now") {
						good = true
					}
				}
				c.Check(good, w, "scan time is time.Now().UnixNano(): "+t.Name(), ci.Pos(), "", "the scan time handed to "+t.Name()+" is not time.Now().UnixNano()")
			}
		}
	}
	// deadlines
	priF := c.P.Field("nsqd", "Message", "pri")
	if fn := c.Fn("nsqd", "(*Channel).StartInFlightTimeout"); fn != nil {
		n := 0
		an.Instrs(fn, func(in ssa.Instruction) {
			st, ok := in.(*ssa.Store)
			if !ok {
				return
			}
			fa, ok := st.Addr.(*ssa.FieldAddr)
			if !ok || an.FieldOf(fa) != priF {
				return
			}
			n++
			good := false
			if tv, ok := unixNanoOf(st.Val); ok {
				if d, ok := timeNowAdd(tv); ok && isParam(d, fn, 3) {
					good = true
				}
			}
			c.Check(good, fn, "in-flight deadline = now + timeout", st.Pos(), "", "msg.pri is not time.Now().Add(timeout).UnixNano() with the caller's timeout")
		})
		if n == 0 {
			c.Bad(fn, "in-flight deadline = now + timeout", fn.Pos(), "StartInFlightTimeout does not set msg.pri", nil)
		}
	}
	if fn := c.Fn("nsqd", "(*Channel).StartDeferredTimeout"); fn != nil {
		good := false
		an.Instrs(fn, func(in ssa.Instruction) {
			st, ok := in.(*ssa.Store)
			if !ok {
				return
			}
			fa, ok := st.Addr.(*ssa.FieldAddr)
			if !ok || an.FName(an.FieldOf(fa)) != "Priority" {
				return
			}
			if tv, ok := unixNanoOf(st.Val); ok {
				if d, ok := timeNowAdd(tv); ok && isParam(d, fn, 2) {
					good = true
				}
			}
		})
		c.Check(good, fn, "deferred deadline = now + delay", fn.Pos(), "", "the deferred item's Priority is not time.Now().Add(timeout).UnixNano()")
	}
	// consumer pump hands the negotiated msgTimeout
	if fn := c.Fn("nsqd", "(*protocolV2).messagePump"); fn != nil {
		start := c.P.Func("nsqd", "(*Channel).StartInFlightTimeout")
		mtF := c.P.Field("nsqd", "clientV2", "MsgTimeout")
		ieF := c.P.Field("nsqd", "identifyEvent", "MsgTimeout")
		for _, ci := range an.CallsTo(fn, start) {
			good := an.OriginsAll(arg(ci, 2), func(o ssa.Value) bool {
				f, _ := an.LoadedField(o)
				return f != nil && (f == mtF || f == ieF)
			})
			c.Check(good, fn, "in-flight timeout is the negotiated msg_timeout", ci.Pos(), "", "the timeout given to StartInFlightTimeout is not the client's negotiated MsgTimeout")
		}
	}
}

func c04touchcap(c *an.Ctx) {
	fn := c.Fn("nsqd", "(*Channel).TouchMessage")
	if fn == nil {
		return
	}
	priF := c.P.Field("nsqd", "Message", "pri")
	dtsF := c.P.Field("nsqd", "Message", "deliveryTS")
	n := 0
	an.Instrs(fn, func(in ssa.Instruction) {
		st, ok := in.(*ssa.Store)
		if !ok {
			return
		}
		fa, ok := st.Addr.(*ssa.FieldAddr)
		if !ok || an.FieldOf(fa) != priF {
			return
		}
		n++
		tv, ok := unixNanoOf(st.Val)
		if !ok {
			c.Bad(fn, "touch deadline capped", st.Pos(), "msg.pri is not a time's UnixNano()", nil)
			return
		}
		isCap := func(v ssa.Value) bool {
			call, ok := an.Strip(v).(*ssa.Call)
			return ok && an.StdCallee(call, "time", "(Time).Add") && isLoadOfField(call.Call.Args[0], dtsF) && isOptsField(c, call.Call.Args[1], "nsqd", "MaxMsgTimeout")
		}
		var check func(v ssa.Value, cmps []an.Cmp, d int) bool
		check = func(v ssa.Value, cmps []an.Cmp, d int) bool {
			if d > 4 {
				return false
			}
			if isCap(v) {
				return true
			}
			if phi, ok := v.(*ssa.Phi); ok {
				for i, e := range phi.Edges {
					if !check(e, an.CmpsOnEdge(an.Edge{From: phi.Block().Preds[i], To: phi.Block()}), d+1) {
						return false
					}
				}
				return true
			}
			// now+timeout: allowed only when (v - deliveryTS) < MaxMsgTimeout holds
			if dd, ok := timeNowAdd(v); ok && isParam(dd, fn, 3) {
				for _, cmp := range cmps {
					oc, ok := cmp.Oriented(func(x ssa.Value) bool {
						call, ok := an.Strip(x).(*ssa.Call)
						return ok && an.StdCallee(call, "time", "(Time).Sub") && call.Call.Args[0] == v && isLoadOfField(call.Call.Args[1], dtsF)
					})
					if ok && oc.Op == token.LSS && isOptsField(c, oc.Y, "nsqd", "MaxMsgTimeout") {
						return true
					}
				}
			}
			return false
		}
		good := check(tv, an.CmpsAt(st.Block()), 0)
		c.Check(good, fn, "touch deadline capped", st.Pos(), "",
			"TOUCH can set a deadline beyond deliveryTS + max-msg-timeout (the uncapped now+msg_timeout value is stored without the dominating `newTimeout - deliveryTS < MaxMsgTimeout`): a consumer can hold a message for ever")
	})
	if n == 0 {
		c.Bad(fn, "touch deadline capped", fn.Pos(), "TouchMessage does not reset msg.pri", nil)
	}
	// every delivery stamps deliveryTS with the same now that the deadline is computed from
	if sf := c.Fn("nsqd", "(*Channel).StartInFlightTimeout"); sf != nil {
		q := &an.PathQ{Fn: sf, StartEntry: true, Sink: sinkSuccessReturn, Cut: func(in ssa.Instruction, _ *an.PathState) bool {
			st, ok := in.(*ssa.Store)
			if !ok {
				return false
			}
			fa, ok := st.Addr.(*ssa.FieldAddr)
			if !ok || an.FieldOf(fa) != dtsF || !isParam(fa.X, sf, 1) {
				return false
			}
			call, ok := an.Strip(st.Val).(*ssa.Call)
			return ok && an.StdCallee(call, "time", "Now")
		}}
		w, f := q.Find()
		if f {
			c.Bad(sf, "every delivery stamps deliveryTS = now", sf.Pos(), "a delivery can complete without deliveryTS being set to time.Now(): TOUCH's cap is then measured from an earlier delivery (or from the zero time) and the message is redelivered before its timeout", w)
		} else {
			c.OK(sf, "every delivery stamps deliveryTS = now", sf.Pos(), "")
		}
	}
	// deliveryTS is set at delivery only
	for _, g := range c.P.PkgFuncs("nsqd") {
		an.Instrs(g, func(in ssa.Instruction) {
			st, ok := in.(*ssa.Store)
			if !ok {
				return
			}
			fa, ok := st.Addr.(*ssa.FieldAddr)
			if !ok || an.FieldOf(fa) != dtsF {
				return
			}
			c.Check(an.FnName(g) == "(*nsqd.Channel).StartInFlightTimeout", g, "deliveryTS written only at delivery", st.Pos(), "",
				"Message.deliveryTS is written outside StartInFlightTimeout: TOUCH's cap moves with it")
		})
	}
}

func c04heap(c *an.Ctx) {
	// pqueue.Less: pq[i].Priority < pq[j].Priority
	if fn := c.Fn("internal/pqueue", "(PriorityQueue).Less"); fn != nil {
		good := false
		for _, r := range an.Returns(fn) {
			b, ok := an.Resolve(r.Results[0]).(*ssa.BinOp)
			if !ok {
				continue
			}
			ix := func(v ssa.Value) ssa.Value {
				f, base := an.LoadedField(an.Strip(v))
				if f == nil || f.Name() != "Priority" {
					return nil
				}
				if u, ok := an.Strip(base).(*ssa.UnOp); ok {
					if ia, ok := u.X.(*ssa.IndexAddr); ok {
						return ia.Index
					}
				}
				return nil
			}
			x, y := ix(b.X), ix(b.Y)
			if x == nil || y == nil {
				continue
			}
			if (b.Op == token.LSS && isParam(x, fn, 1) && isParam(y, fn, 2)) || (b.Op == token.GTR && isParam(x, fn, 2) && isParam(y, fn, 1)) {
				good = true
			}
		}
		c.Check(good, fn, "Less is Priority[i] < Priority[j]", fn.Pos(), "", "PriorityQueue.Less is not `pq[i].Priority < pq[j].Priority`: heap.Remove/PeekAndShift no longer see the earliest deadline at slot 0")
	}
	// inFlightPqueue.up / down: swap only when child.pri < parent.pri
	swap := c.P.Func("nsqd", "(inFlightPqueue).Swap")
	for _, m := range []string{"up", "down"} {
		fn := c.Fn("nsqd", "(*inFlightPqueue)."+m)
		if fn == nil || swap == nil {
			continue
		}
		priOf := func(v ssa.Value) ssa.Value {
			f, base := an.LoadedField(an.Strip(v))
			if f == nil || f.Name() != "pri" {
				return nil
			}
			if u, ok := an.Strip(base).(*ssa.UnOp); ok {
				if ia, ok := u.X.(*ssa.IndexAddr); ok {
					return ia.Index
				}
			}
			return nil
		}
		n := 0
		for _, ci := range an.CallsIn(fn, func(ci ssa.CallInstruction) bool {
			f := an.StaticCallee(ci)
			return f != nil && f.Name() == "Swap"
		}) {
			n++
			a0, a1 := arg(ci, 0), arg(ci, 1)
			good := false
			for _, cmp := range an.CmpsAt(ci.Block()) {
				if cmp.Op != token.LSS && cmp.Op != token.GTR {
					continue
				}
				x, y := priOf(cmp.X), priOf(cmp.Y)
				if x == nil || y == nil {
					continue
				}
				small, big := x, y
				if cmp.Op == token.GTR {
					small, big = y, x
				}
				// small is the child, big is the parent
				if m == "up" && isParentOf(big, small) && involves(a0, a1, small, big) {
					good = true
				}
				if m == "down" && isChildOf(small, big) && involves(a0, a1, small, big) {
					good = true
				}
			}
			c.Check(good, fn, "sift "+m+" swaps only when child.pri < parent.pri", ci.Pos(), "",
				"the in-flight heap's sift-"+m+" does not swap exactly when the child's deadline is earlier than the parent's: slot 0 is no longer the earliest deadline and timeouts fire late or never")
		}
		if n == 0 {
			c.Bad(fn, "sift "+m+" swaps only when child.pri < parent.pri", fn.Pos(), "no Swap in sift-"+m, nil)
		}
	}
}

func involves(a0, a1, x, y ssa.Value) bool {
	return (an.SameValue(a0, x) && an.SameValue(a1, y)) || (an.SameValue(a0, y) && an.SameValue(a1, x))
}

// isParentOf: p == (c-1)/2
func isParentOf(p, ch ssa.Value) bool {
	q, ok := an.Strip(p).(*ssa.BinOp)
	if !ok || q.Op != token.QUO {
		return false
	}
	if k, isC := an.ConstInt(q.Y); !isC || k != 2 {
		return false
	}
	s, ok := q.X.(*ssa.BinOp)
	if !ok || s.Op != token.SUB {
		return false
	}
	k, isC := an.ConstInt(s.Y)
	return isC && k == 1 && an.SameValue(s.X, ch)
}

// isChildOf: c originates (through phis) from 2*p+1 or (2*p+1)+1
func isChildOf(ch, p ssa.Value) bool {
	return an.OriginsAll(ch, func(o ssa.Value) bool {
		b, ok := o.(*ssa.BinOp)
		if !ok || b.Op != token.ADD {
			return false
		}
		k, isC := an.ConstInt(b.Y)
		if !isC || k != 1 {
			return false
		}
		if m, ok := b.X.(*ssa.BinOp); ok && m.Op == token.MUL {
			k2, isC2 := an.ConstInt(m.X)
			k3, isC3 := an.ConstInt(m.Y)
			return (isC2 && k2 == 2 && an.SameValue(m.Y, p)) || (isC3 && k3 == 2 && an.SameValue(m.X, p))
		}
		// j2 = j1 + 1
		if inner, ok := b.X.(*ssa.BinOp); ok && inner.Op == token.ADD {
			if m, ok := inner.X.(*ssa.BinOp); ok && m.Op == token.MUL {
				k2, isC2 := an.ConstInt(m.X)
				k3, isC3 := an.ConstInt(m.Y)
				return (isC2 && k2 == 2 && an.SameValue(m.Y, p)) || (isC3 && k3 == 2 && an.SameValue(m.X, p))
			}
		}
		return false
	})
}
