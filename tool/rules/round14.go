package rules

import (
	"go/token"
	"go/types"
	"strings"

	"golang.org/x/tools/go/ssa"

	"nsqverif/an"
)

// Rules added after the thirteenth round of independently seeded changes (DESIGN.md §11.29).
func init() {
	for id, extra := range map[string]string{
		"C01": " (pool) a pooled buffer is returned after the write that reads it; (balanced) AddClient/RemoveClient return with the locks they entered with.",
		"C03": " (callers) the counting functions of a consumer are called from the transitions they count.",
		"C04": " (deferredmem) a deferred publish is offered to the memory queue before the backend; (identifyapply) the pump applies every negotiated option.",
		"C05": " (idclock) ids are built from the wall clock.",
		"C07": " (negotiated) a connection is upgraded exactly when the IDENTIFY response says so.",
		"C08": " (metaephemeral) ephemeral topics stay out of the metadata.",
		"C10": " (delete) a topic is deleted before it is unlinked; (servertimeouts) the shared HTTP server has no read/write timeouts.",
		"C11": " (queryencode) the auth query is encoded by url.Values.",
		"C12": " (pool) as C01; (idclock) as C05.",
		"C13": " (statsdall) the statsd push visits every channel of every topic.",
		"C14": " (query) a malformed query string is refused; (nodeadline) nsqlookupd arms no connection deadline.",
		"C15": " (nodeadline) as C14; (paired) a counter a function raises and lowers is lowered on every path.",
		"C16": " (peeradded) every configured nsqlookupd address gets a peer.",
		"C17": " (ciststateless) ClusterInfo keeps nothing between calls.",
		"C18": " (ciststateless) as C17; (mergelocked) shared aggregates are updated under the fan-in lock.",
		"C20": " (delimbyte) to_nsq's delimiter is the byte given; (lazyinit) nsq_to_nsq publishes its lazily parsed value last.",
	} {
		p := Props[id]
		p.Explanation += extra
		Props[id] = p
	}
	has := func(subs ...string) func(string) bool {
		return func(n string) bool {
			for _, s := range subs {
				if strings.Contains(n, s) {
					return true
				}
			}
			return false
		}
	}
	reg("C01.pool", "PATH", "buffer pool: a pooled buffer is put back after the backend write that reads its bytes – put back early, another publisher's record is written under this message's acknowledgement (shared with C07.pool)", 5, c07pool)
	reg("C12.pool", "PATH", "buffer pool: put back after the write – put back early, two accepted messages reach the disk queue with one id (shared with C07.pool)", 5, c07pool)
	reg("C03.callers", "CALLS", "each counting function of a consumer is called only from the transition it counts: a FinishedMessage for a message that was never sent drives the in-flight count negative, and the consumer is sent more than its RDY (shared with C13.callers)", 12, c13callers)
	reg("C08.metaephemeral", "GUARD", "ephemeral topics/channels are skipped by GetMetadata (the GetMetadata rows of C06.ephemeral)", 1, only(c06ephemeral, has("GetMetadata")))
	reg("C10.delete", "PATH", "DeleteExistingTopic deletes the topic before it unlinks it: unlinked first, a publish re-creates the topic over the files the deletion is about to remove (the DeleteExistingTopic rows of C08.delete)", 1, only(c08delete, has("DeleteExistingTopic")))
	reg("C14.query", "CALLS+PATH", "query strings are parsed strictly in the helper nsqlookupd's endpoints share: a malformed query is answered 400 and has no effect (shared with C10.query)", 2, c10query)
	reg("C01.balanced", "LOCK", "AddClient/RemoveClient return with exactly the locks they were entered with: a leaked read lock stops the timeout scan between its pop and its put (the AddClient/RemoveClient rows of C08.balanced)", 2, only(c08balanced, has("AddClient", "RemoveClient")))

	reg("C04.deferredmem", "PATH", "Topic.put reaches the backend write only past the memory-queue select or an edge where the message is not deferred", 1, c04deferredmem)
	reg("C04.identifyapply", "PATH", "the consumer pump reads MsgTimeout, SampleRate and HeartbeatInterval of the IDENTIFY event on every path back to its select", 3, c04identifyapply)
	reg("C05.idclock", "ORIG", "the timestamp in a message id comes from time.Now().UnixNano()", 1, c05idclock)
	reg("C12.idclock", "ORIG", "the timestamp in a message id comes from time.Now().UnixNano(): a process-relative clock repeats ids of the restored backlog (shared with C05.idclock)", 1, c05idclock)
	reg("C07.negotiated", "ORIG", "the value that gates UpgradeTLS/UpgradeSnappy/UpgradeDeflate is the value the IDENTIFY response reports", 3, c07negotiated)
	reg("C10.servertimeouts", "ORIG", "http_api.Serve sets only Handler and ErrorLog of its http.Server", 1, c10servertimeouts)
	reg("C11.queryencode", "ORIG", "the query string QueryAuthd sends is url.Values.Encode of its parameters", 1, c11queryencode)
	reg("C13.statsdall", "PATH", "every iteration of statsdLoop's topic loop reaches the loop over that topic's channels", 1, c13statsdall)
	reg("C14.nodeadline", "CALLS", "package nsqlookupd sets no deadline on a connection", 1, c14nodeadline)
	reg("C15.nodeadline", "CALLS", "package nsqlookupd sets no deadline on a connection (shared with C14.nodeadline)", 1, c14nodeadline)
	reg("C15.paired", "PATH", "a counter a function both raises and lowers is lowered on every path after it was raised", 0, c15paired)
	reg("C16.peeradded", "PATH", "lookupLoop appends every peer it creates", 1, c16peeradded)
	reg("C17.ciststateless", "ORIG", "no method of ClusterInfo writes a field of ClusterInfo", 1, statelessType("internal/clusterinfo", "ClusterInfo", "New", "every nsqadmin request must see the cluster as it is: an action fanned out to a remembered producer list skips the nsqd that registered since"))
	reg("C18.ciststateless", "ORIG", "no method of ClusterInfo writes a field of ClusterInfo (shared with C17.ciststateless)", 1, statelessType("internal/clusterinfo", "ClusterInfo", "New", "every view must list what the upstreams report now"))
	reg("C18.mergelocked", "LOCK", "fan-in workers call the Add/merge methods of shared aggregates with the fan-in lock held", 1, c18mergelocked)
	reg("C20.delimbyte", "ORIG", "to_nsq hands readAndPublish a byte indexed out of the delimiter string", 1, c20delimbyte)
	reg("C20.lazyinit", "PATH", "nsq_to_nsq stores nothing into the lazily parsed fields after it marked them parsed", 1, c20lazyinit)
}

// ---- C04.deferredmem -----------------------------------------------------------------------------------------

func c04deferredmem(c *an.Ctx) {
	fn := c.Fn("nsqd", "(*Topic).put")
	df := c.P.Field("nsqd", "Message", "deferred")
	if fn == nil || df == nil {
		if fn != nil {
			c.Anchor("nsqd.Message.deferred")
		}
		return
	}
	wb := backendWriterFn(c)
	if wb == nil {
		return
	}
	q := &an.PathQ{Fn: fn, StartEntry: true, FullOnly: true,
		Sink: func(in ssa.Instruction, _ *an.PathState) bool {
			ci, ok := in.(ssa.CallInstruction)
			return ok && an.IsCallTo(ci, wb)
		},
		Cut: func(in ssa.Instruction, _ *an.PathState) bool { _, ok := in.(*ssa.Select); return ok },
		CutEdge: func(e an.Edge, ps *an.PathState) bool {
			for _, cmp := range ps.CmpsOnEdge(e) {
				if cmp.Op != token.EQL {
					continue
				}
				x, y := cmp.X, cmp.Y
				if k, ok := an.ConstInt(x); ok && k == 0 {
					x, y = y, x
				}
				if k, ok := an.ConstInt(y); !ok || k != 0 {
					continue
				}
				if f, _ := an.LoadedField(an.Strip(x)); f == df {
					return true
				}
			}
			return false
		}}
	w, found := q.Find()
	if found {
		c.Bad(fn, "deferred messages try the memory queue first", fn.Pos(), "Topic.put can write a message to the disk queue without having offered it to the memory queue and without knowing that it is not deferred: the disk record has no delay, so with --mem-queue-size=0 a DPUB is delivered at once", w)
	} else {
		c.OK(fn, "deferred messages try the memory queue first", fn.Pos(), "")
	}
}

// ---- C04.identifyapply ---------------------------------------------------------------------------------------

func c04identifyapply(c *an.Ctx) {
	fn := c.Fn("nsqd", "(*protocolV2).messagePump")
	idt := c.P.Named("nsqd", "identifyEvent")
	if fn == nil || idt == nil {
		if fn != nil {
			c.Anchor("nsqd.identifyEvent")
		}
		return
	}
	var sel *ssa.Select
	var chosen []an.Edge
	var recv ssa.Value
	for _, s := range an.Selects(fn) {
		for _, ss := range an.SelectStates(s) {
			if ss.State.Dir != types.RecvOnly {
				continue
			}
			if t := an.ChanElem(ss.State.Chan); t != nil && types.Identical(t, idt) {
				sel, chosen, recv = s, ss.Chosen, ss.Recv
			}
		}
	}
	if sel == nil || len(chosen) == 0 || recv == nil {
		c.Und(fn, "negotiated options applied", fn.Pos(), "the consumer pump has no select case receiving the IDENTIFY event")
		return
	}
	for _, name := range []string{"MsgTimeout", "SampleRate", "HeartbeatInterval"} {
		f := c.P.Field("nsqd", "identifyEvent", name)
		if f == nil {
			c.Anchor("nsqd.identifyEvent." + name)
			continue
		}
		reads := func(in ssa.Instruction, _ *an.PathState) bool {
			switch x := in.(type) {
			case *ssa.Field:
				return an.Strip(x.X) == an.Strip(recv) && an.FieldOfStruct(x) == f
			case *ssa.FieldAddr:
				return an.FieldOf(x) == f
			}
			return false
		}
		q := &an.PathQ{Fn: fn, StartEdges: chosen, Cut: reads,
			Sink: func(in ssa.Instruction, _ *an.PathState) bool { return in == ssa.Instruction(sel) }}
		w, found := q.Find()
		if found {
			c.Bad(fn, "negotiated "+name+" applied", sel.Pos(), "the consumer pump can go back to its select after the IDENTIFY event without having read "+name+" (an early continue for one option combination): the connection then runs with the default – deliveries are timed with the broker's msg-timeout, not the one the IDENTIFY response promised", w)
		} else {
			c.OK(fn, "negotiated "+name+" applied", sel.Pos(), "")
		}
	}
}

// ---- C05.idclock ---------------------------------------------------------------------------------------------

func c05idclock(c *an.Ctx) {
	fn := c.Fn("nsqd", "(*guidFactory).NewGUID")
	if fn == nil {
		return
	}
	wall, rel := false, ""
	for _, g := range append([]*ssa.Function{fn}, c.P.PkgFuncs("nsqd")...) {
		if g != fn && an.BaseName(g) != "NewGUIDFactory" {
			continue
		}
		an.Instrs(g, func(in ssa.Instruction) {
			ci, ok := in.(ssa.CallInstruction)
			if !ok {
				return
			}
			switch {
			case an.StdCallee(ci, "time", "(Time).UnixNano"), an.StdCallee(ci, "time", "(Time).UnixMilli"), an.StdCallee(ci, "time", "(Time).Unix"):
				if g == fn {
					wall = true
				}
			case an.StdCallee(ci, "time", "Since"), an.StdCallee(ci, "time", "(Time).Sub"), an.StdCallee(ci, "time", "Until"):
				if g == fn {
					rel = an.StaticCallee(ci).Name()
				}
			}
		})
	}
	c.Check(wall && rel == "", fn, "id timestamp from the wall clock", fn.Pos(), "", "NewGUID does not take its timestamp from time.Now().UnixNano() (it measures from a process-local starting point, time."+rel+"): after a restart the generator hands out ids the restored backlog already uses – two messages with one id are one in-flight entry, and one of them is lost at the next flush")
}

// ---- C07.negotiated ------------------------------------------------------------------------------------------

func c07negotiated(c *an.Ctx) {
	fn := c.Fn("nsqd", "(*protocolV2).IDENTIFY")
	if fn == nil {
		return
	}
	// what the response reports: the values stored into the fields TLSv1 / Deflate / Snappy of the struct that is
	// marshalled
	reported := map[string]ssa.Value{}
	an.Instrs(fn, func(in ssa.Instruction) {
		st, ok := in.(*ssa.Store)
		if !ok {
			return
		}
		fa, ok := st.Addr.(*ssa.FieldAddr)
		if !ok {
			return
		}
		if _, local := an.Strip(fa.X).(*ssa.Alloc); !local {
			return
		}
		f := an.FieldOf(fa)
		if f == nil {
			return
		}
		switch f.Name() {
		case "TLSv1", "Deflate", "Snappy":
			if _, isBool := f.Type().Underlying().(*types.Basic); isBool {
				reported[f.Name()] = an.CanonBool(st.Val)
			}
		}
	})
	for _, row := range [][2]string{{"UpgradeTLS", "TLSv1"}, {"UpgradeDeflate", "Deflate"}, {"UpgradeSnappy", "Snappy"}} {
		up := c.Fn("nsqd", "(*clientV2)."+row[0])
		if up == nil {
			continue
		}
		calls := an.CallsTo(fn, up)
		if len(calls) == 0 {
			c.Und(fn, row[0]+" gated by what was reported", fn.Pos(), "IDENTIFY no longer calls "+row[0])
			continue
		}
		rep := reported[row[1]]
		for _, uc := range calls {
			good := false
			for _, f := range an.FactsAt(uc.Block()) {
				if f.True && rep != nil && an.CanonBool(f.V) == rep {
					good = true
				}
			}
			c.Check(good, fn, row[0]+" gated by what was reported", uc.Pos(), "", "IDENTIFY calls "+row[0]+" under a condition that is not the value it reports as "+row[1]+" in its response (the request flag without the server's own switch): with the feature disabled on the server the response says false, the server wraps its side of the connection all the same, and every later frame reaches the client as garbage")
		}
	}
}

// ---- C10.servertimeouts --------------------------------------------------------------------------------------

func c10servertimeouts(c *an.Ctx) {
	fn := c.Fn("internal/http_api", "Serve")
	if fn == nil {
		return
	}
	n := 0
	var bad []string
	var pos token.Pos
	scan := func(in ssa.Instruction) {
		st, ok := in.(*ssa.Store)
		if !ok {
			return
		}
		fa, ok := st.Addr.(*ssa.FieldAddr)
		if !ok {
			return
		}
		f := an.FieldOf(fa)
		if f == nil || f.Pkg() == nil || f.Pkg().Path() != "net/http" {
			return
		}
		pt, ok := fa.X.Type().Underlying().(*types.Pointer)
		if !ok || !strings.HasSuffix(pt.Elem().String(), "net/http.Server") {
			return
		}
		n++
		switch f.Name() {
		case "Handler", "ErrorLog", "Addr", "TLSConfig", "BaseContext", "ConnContext", "ConnState":
		default:
			bad = append(bad, f.Name())
			pos = st.Pos()
		}
	}
	// the server may be built by a helper of the package
	for _, g := range c.P.PkgFuncs("internal/http_api") {
		an.Instrs(g, scan)
	}
	c.Check(n >= 1 && len(bad) == 0, fn, "no server-side timeouts", pos, "", "http_api.Serve sets http.Server."+strings.Join(bad, ", ")+": the server is shared by nsqd, nsqlookupd and nsqadmin, and a read/write timeout cuts off a complete, valid /pub or /mpub whose body arrives slowly – answered 500 with nothing enqueued, where TCP PUB has no such limit")
}

// ---- C11.queryencode -----------------------------------------------------------------------------------------

// builtFrom: v is computed from target (through string building: Sprintf/concatenation/conversion), to a small depth.
func builtFrom(v ssa.Value, isTarget func(ssa.Value) bool, depth int) bool {
	if v == nil || depth > 8 {
		return false
	}
	v = an.Strip(v)
	if isTarget(v) {
		return true
	}
	switch x := v.(type) {
	case *ssa.Phi:
		for _, e := range x.Edges {
			if builtFrom(e, isTarget, depth+1) {
				return true
			}
		}
	case *ssa.BinOp:
		return builtFrom(x.X, isTarget, depth+1) || builtFrom(x.Y, isTarget, depth+1)
	case *ssa.Convert:
		return builtFrom(x.X, isTarget, depth+1)
	case *ssa.ChangeType:
		return builtFrom(x.X, isTarget, depth+1)
	case *ssa.MakeInterface:
		return builtFrom(x.X, isTarget, depth+1)
	case *ssa.Slice:
		return builtFrom(x.X, isTarget, depth+1)
	case *ssa.Alloc:
		// a variadic array: any element stored into it
		for _, r := range an.Referrers(x) {
			if ia, ok := r.(*ssa.IndexAddr); ok {
				for _, r2 := range an.Referrers(ia) {
					if st, ok := r2.(*ssa.Store); ok && builtFrom(st.Val, isTarget, depth+1) {
						return true
					}
				}
			}
			if st, ok := r.(*ssa.Store); ok && st.Addr == ssa.Value(x) && builtFrom(st.Val, isTarget, depth+1) {
				return true
			}
		}
	case *ssa.UnOp:
		return builtFrom(x.X, isTarget, depth+1)
	case *ssa.Call:
		for _, a := range x.Call.Args {
			if builtFrom(a, isTarget, depth+1) {
				return true
			}
		}
	}
	return false
}

func c11queryencode(c *an.Ctx) {
	fn := c.Fn("internal/auth", "QueryAuthd")
	getv1 := c.P.Func("internal/http_api", "(*Client).GETV1")
	if fn == nil || getv1 == nil {
		return
	}
	isEncode := func(v ssa.Value) bool {
		call, ok := v.(*ssa.Call)
		return ok && an.StdCallee(call, "net/url", "(Values).Encode")
	}
	n := 0
	for _, gc := range an.CallsTo(fn, getv1) {
		n++
		c.Check(builtFrom(arg(gc, 0), isEncode, 0), fn, "query encoded by url.Values", gc.Pos(), "", "the endpoint QueryAuthd requests is not built from url.Values.Encode(): a hand-made encoding that leaves & and = alone lets the secret a client sends in AUTH add or override tls, remote_ip and common_name – the auth server then answers for a connection that does not exist")
	}
	c.Check(n >= 1, fn, "auth GET located", fn.Pos(), "", "QueryAuthd no longer calls GETV1")
}

// ---- C13.statsdall -------------------------------------------------------------------------------------------

func c13statsdall(c *an.Ctx) {
	fn := c.Fn("nsqd", "(*NSQD).statsdLoop")
	topicsF := c.P.Field("nsqd", "Stats", "Topics")
	chansF := c.P.Field("nsqd", "TopicStats", "Channels")
	if fn == nil || topicsF == nil || chansF == nil {
		if fn != nil {
			c.Anchor("nsqd.Stats.Topics / TopicStats.Channels")
		}
		return
	}
	done := false
	for _, g := range an.WithAnon(fn) {
		for _, l := range an.NaturalLoops(g) {
			il, ok := an.AsIndexLoop(l)
			if !ok || il == nil || il.Slice == nil {
				continue
			}
			if f := fieldOfValue(il.Slice); f != topicsF {
				continue
			}
			// only the loop over the fresh snapshot (not the search through the previous one) publishes
			pushes := false
			for b := range l.Blocks {
				for _, in := range b.Instrs {
					if ci, ok := in.(ssa.CallInstruction); ok {
						if f := an.StaticCallee(ci); f != nil && f.Pkg != nil && strings.HasSuffix(f.Pkg.Pkg.Path(), "internal/statsd") {
							pushes = true
						}
					}
				}
			}
			if !pushes {
				continue
			}
			done = true
			// an iteration ends without the channel loop only for a topic skipped by name (--statsd-exclude-ephemeral)
			q := &an.PathQ{Fn: g, StartEdges: []an.Edge{{From: il.Header, To: il.Body}}, FullOnly: true,
				SinkEdge: func(e an.Edge, _ *an.PathState) bool { return e.To == il.Header },
				Cut: func(in ssa.Instruction, _ *an.PathState) bool {
					call, ok := in.(*ssa.Call)
					if !ok {
						return false
					}
					bi, ok := call.Call.Value.(*ssa.Builtin)
					if !ok || bi.Name() != "len" || len(call.Call.Args) != 1 {
						return false
					}
					return fieldOfValue(call.Call.Args[0]) == chansF
				},
				CutEdge: func(e an.Edge, ps *an.PathState) bool {
					for _, f := range ps.FactsOnEdge(e) {
						if call, ok := f.V.(*ssa.Call); ok && f.True && an.StdCallee(call, "strings", "HasSuffix") {
							return true
						}
					}
					return false
				}}
			_, skips := q.Find()
			each, why := !skips, "an iteration can complete without it"
			c.Check(each, fn, "every topic's channels are pushed", il.Header.Instrs[0].Pos(), "", "statsdLoop can finish a topic without entering the loop over its channels ("+why+"): an idle topic's channels – draining a backlog, requeueing, timing out – stop being reported, and that interval's channel counters are lost because the previous snapshot still moves on")
		}
	}
	c.Check(done, fn, "topic loop located", fn.Pos(), "", "statsdLoop has no publishing loop over Stats.Topics")
}

// fieldOfValue: the struct field a value was read from (a load through FieldAddr, or a Field of a struct value).
func fieldOfValue(v ssa.Value) *types.Var {
	v = an.Strip(v)
	if f, _ := an.LoadedField(v); f != nil {
		return f
	}
	if fv, ok := v.(*ssa.Field); ok {
		return an.FieldOfStruct(fv)
	}
	return nil
}

// ---- C14.nodeadline ------------------------------------------------------------------------------------------

func c14nodeadline(c *an.Ctx) {
	n := 0
	for _, fn := range c.P.PkgFuncs("nsqlookupd") {
		n++
		for _, ci := range an.CallsIn(fn, func(ci ssa.CallInstruction) bool {
			m := ""
			if ci.Common().IsInvoke() {
				m = ci.Common().Method.Name()
			} else if f := an.StaticCallee(ci); f != nil {
				m = f.Name()
			}
			return m == "SetDeadline" || m == "SetWriteDeadline" || m == "SetReadDeadline"
		}) {
			c.Bad(fn, "no connection deadline", ci.Pos(), an.FnName(fn)+" arms a deadline on a connection: nsqlookupd's peers are long-lived and mostly silent, nothing re-arms or clears a deadline per command, and once it passes every response write fails – the loop exits and its exit path removes all the peer registered, although the peer kept pinging", nil)
		}
	}
	c.Check(n > 10, nil, "functions scanned", token.NoPos, "", "fewer than ten functions of nsqlookupd scanned")
}

// ---- C15.paired ----------------------------------------------------------------------------------------------

// c15paired: where one function both raises and lowers the same counter field with sync/atomic (a gauge of things in
// progress), the lowering – deferred or not – is passed on every path from the raising to a return.
func c15paired(c *an.Ctx) {
	for _, pkg := range []string{"nsqlookupd", "nsqd", "internal/protocol", "internal/http_api"} {
		for _, fn := range c.P.PkgFuncs(pkg) {
			type site struct {
				in     ssa.Instruction
				delta  int64
				field  *types.Var
				defer_ bool
			}
			var sites []site
			an.Instrs(fn, func(in ssa.Instruction) {
				ci, ok := in.(ssa.CallInstruction)
				if !ok {
					return
				}
				if !(an.StdCallee(ci, "sync/atomic", "AddInt64") || an.StdCallee(ci, "sync/atomic", "AddInt32") || an.StdCallee(ci, "sync/atomic", "AddUint64")) {
					return
				}
				args := ci.Common().Args
				if len(args) != 2 {
					return
				}
				fa, ok := args[0].(*ssa.FieldAddr)
				if !ok {
					return
				}
				k, isC := an.ConstInt(args[1])
				if !isC {
					return
				}
				_, isDefer := in.(*ssa.Defer)
				sites = append(sites, site{in, k, an.FieldOf(fa), isDefer})
			})
			for _, up := range sites {
				if up.delta <= 0 || up.defer_ {
					continue
				}
				var downs []ssa.Instruction
				for _, d := range sites {
					if d.field == up.field && d.delta == -up.delta {
						downs = append(downs, d.in)
					}
				}
				if len(downs) == 0 {
					continue // a plain statistic, not a gauge this function maintains
				}
				q := &an.PathQ{Fn: fn, StartAfter: []ssa.Instruction{up.in}, Sink: an.IsReturn,
					Cut: func(in ssa.Instruction, _ *an.PathState) bool {
						for _, d := range downs {
							if d == in {
								return true
							}
						}
						return false
					}}
				w, found := q.Find()
				if found {
					c.Bad(fn, "counter "+an.FName(up.field)+" lowered on every path", up.in.Pos(), an.FnName(fn)+" raises "+an.FName(up.field)+" and can return without lowering it (the lowering is registered after an early return): each such return leaves the gauge one too high for good – a limit tested against it ends up refusing everyone", w)
				} else {
					c.OK(fn, "counter "+an.FName(up.field)+" lowered on every path", up.in.Pos(), "")
				}
			}
		}
	}
}

// ---- C16.peeradded -------------------------------------------------------------------------------------------

func c16peeradded(c *an.Ctx) {
	fn := c.Fn("nsqd", "(*NSQD).lookupLoop")
	np := c.Fn("nsqd", "newLookupPeer")
	lpT := c.P.Named("nsqd", "lookupPeer")
	if fn == nil || np == nil || lpT == nil {
		return
	}
	var starts []ssa.Instruction
	for _, ci := range an.CallsTo(fn, np) {
		starts = append(starts, ci.(ssa.Instruction))
	}
	if len(starts) == 0 {
		c.Und(fn, "every created peer is kept", fn.Pos(), "lookupLoop no longer calls newLookupPeer")
		return
	}
	keeps := func(in ssa.Instruction, _ *an.PathState) bool {
		call, ok := in.(*ssa.Call)
		if !ok {
			return false
		}
		bi, ok := call.Call.Value.(*ssa.Builtin)
		if !ok || bi.Name() != "append" {
			return false
		}
		sl, ok := call.Type().Underlying().(*types.Slice)
		if !ok {
			return false
		}
		pt, ok := sl.Elem().(*types.Pointer)
		return ok && types.Identical(pt.Elem(), lpT)
	}
	q := &an.PathQ{Fn: fn, StartAfter: starts, Cut: keeps,
		Sink: func(in ssa.Instruction, _ *an.PathState) bool {
			for _, s := range starts {
				if in == s {
					return true
				}
			}
			switch in.(type) {
			case *ssa.Select, *ssa.Return:
				return true
			}
			return false
		}}
	w, found := q.Find()
	if found {
		c.Bad(fn, "every created peer is kept", starts[0].Pos(), "lookupLoop can go on to the next address (or back to its select) without appending the peer it created – skipped when the first dial fails, say: the address is never retried, so an nsqlookupd that was down when nsqd started never hears of this nsqd", w)
	} else {
		c.OK(fn, "every created peer is kept", starts[0].Pos(), "")
	}
}

// ---- C17.ciststateless ---------------------------------------------------------------------------------------

// statelessType: outside its constructor no function of the package stores into a field of the type, updates a map held in
// one, or hands a field's address to anything but a load.
func statelessType(pkg, typ, ctor, why string) func(c *an.Ctx) {
	return func(c *an.Ctx) {
		nt := c.P.Named(pkg, typ)
		if nt == nil {
			c.Anchor(pkg + "." + typ)
			return
		}
		st, ok := nt.Underlying().(*types.Struct)
		if !ok {
			return
		}
		isField := func(f *types.Var) bool {
			for i := 0; i < st.NumFields(); i++ {
				if st.Field(i) == f {
					return true
				}
			}
			return false
		}
		n := 0
		for _, fn := range c.P.PkgFuncs(pkg) {
			if an.BaseName(fn) == ctor {
				continue
			}
			n++
			an.Instrs(fn, func(in ssa.Instruction) {
				switch x := in.(type) {
				case *ssa.Store:
					if fa, ok := x.Addr.(*ssa.FieldAddr); ok && isField(an.FieldOf(fa)) && !freshStruct(an.Strip(fa.X)) {
						c.Bad(fn, typ+" keeps no state", x.Pos(), an.FnName(fn)+" stores into "+typ+"."+an.FieldOf(fa).Name()+": "+why, nil)
					}
				case *ssa.MapUpdate:
					if f, _ := an.LoadedField(an.Strip(x.Map)); f != nil && isField(f) {
						c.Bad(fn, typ+" keeps no state", x.Pos(), an.FnName(fn)+" writes the map "+typ+"."+f.Name()+": "+why, nil)
					}
				case *ssa.FieldAddr:
					if !isField(an.FieldOf(x)) || freshStruct(an.Strip(x.X)) {
						return
					}
					for _, r := range an.Referrers(x) {
						switch y := r.(type) {
						case *ssa.UnOp, *ssa.DebugRef, *ssa.Store:
							_ = y
						default:
							c.Bad(fn, typ+" keeps no state", x.Pos(), an.FnName(fn)+" hands out the address of "+typ+"."+an.FieldOf(x).Name()+" ("+r.String()+"): "+why, nil)
						}
					}
				}
			})
		}
		c.Check(n > 5, nil, "functions of "+pkg+" scanned", token.NoPos, "", "fewer than six functions scanned")
	}
}

// ---- C18.mergelocked -----------------------------------------------------------------------------------------

func c18mergelocked(c *an.Ctx) {
	la := c.P.Locks()
	ci := c.P.Named("internal/clusterinfo", "ClusterInfo")
	n := 0
	for _, name := range faninFuncs {
		fn := c.Fn("internal/clusterinfo", "(*ClusterInfo)."+name)
		if fn == nil {
			continue
		}
		w, _ := workerOf(fn)
		if w == nil {
			continue
		}
		fl := la.Fns[w]
		class := "local:lock"
		if acc := methodWorkerAcc(w); acc != nil {
			class = acc.class
		}
		for _, call := range an.CallsIn(w, func(call ssa.CallInstruction) bool {
			f := an.StaticCallee(call)
			if f == nil || f.Pkg != fn.Pkg || f.Signature.Recv() == nil {
				return false
			}
			pt, ok := f.Signature.Recv().Type().(*types.Pointer)
			if !ok {
				return false
			}
			if ci != nil && types.Identical(pt.Elem(), ci) {
				return false
			}
			// a mutator of an aggregate: it stores through its receiver
			mut := false
			an.Instrs(f, func(in ssa.Instruction) {
				if st, ok := in.(*ssa.Store); ok {
					if fa, ok := st.Addr.(*ssa.FieldAddr); ok && isParam(an.Strip(fa.X), f, 0) {
						mut = true
					}
				}
			})
			return mut
		}) {
			n++
			held := false
			if fl != nil {
				must, _ := fl.At(call.(ssa.Instruction))
				held = must.Holds(class, "", true)
			}
			c.Check(held, fn, "aggregate updated under the fan-in lock", call.Pos(), "", name+"'s worker calls "+an.FnName(an.StaticCallee(call))+" without the fan-in mutex: the aggregate is shared by the workers of all nodes, and concurrent += / append on it lose nodes, clients and counts from the sums nsqadmin shows")
		}
	}
	c.Check(n >= 1, nil, "aggregate updates located", token.NoPos, "", "no mutating method call found in any fan-in worker")
}

// ---- C20.delimbyte -------------------------------------------------------------------------------------------

func c20delimbyte(c *an.Ctx) {
	fn := c.Fn("apps/to_nsq", "main")
	rp := c.Fn("apps/to_nsq", "readAndPublish")
	if fn == nil || rp == nil {
		return
	}
	n := 0
	for _, g := range an.WithAnon(fn) {
		for _, rc := range an.CallsTo(g, rp) {
			n++
			good := false
			for _, a := range rc.Common().Args {
				b, ok := a.Type().Underlying().(*types.Basic)
				if !ok || b.Kind() != types.Uint8 {
					continue
				}
				good = true
				for _, o := range capturedOrigins(g, a) {
					var seq ssa.Value
					switch x := an.Strip(o).(type) {
					case *ssa.Lookup:
						seq = x.X
					case *ssa.Index:
						seq = x.X
					}
					if seq == nil {
						good = false
						continue
					}
					if sb, ok := seq.Type().Underlying().(*types.Basic); !ok || sb.Info()&types.IsString == 0 {
						good = false
					}
				}
			}
			c.Check(good, fn, "delimiter is the byte given", rc.Pos(), "", "to_nsq no longer hands readAndPublish a byte indexed out of the --delimiter string (it converts a decoded character): a one-byte delimiter above 0x7f is not valid UTF-8, decodes to U+FFFD, and the input is split on 0xfd instead – records are glued together or cut in two")
		}
	}
	c.Check(n >= 1, fn, "readAndPublish call located", fn.Pos(), "", "to_nsq main no longer calls readAndPublish")
}

// ---- C20.lazyinit --------------------------------------------------------------------------------------------

func c20lazyinit(c *an.Ctx) {
	fn := c.Fn("apps/nsq_to_nsq", "(*PublishHandler).shouldPassMessage")
	parsed := c.P.Field("apps/nsq_to_nsq", "PublishHandler", "requireJSONValueParsed")
	if fn == nil || parsed == nil {
		if fn != nil {
			c.Anchor("apps/nsq_to_nsq.PublishHandler.requireJSONValueParsed")
		}
		return
	}
	var marks []ssa.Instruction
	an.Instrs(fn, func(in ssa.Instruction) {
		if st, ok := in.(*ssa.Store); ok {
			if fa, ok := st.Addr.(*ssa.FieldAddr); ok && an.FieldOf(fa) == parsed {
				marks = append(marks, in)
			}
		}
	})
	if len(marks) == 0 {
		c.Und(fn, "parsed flag published last", fn.Pos(), "shouldPassMessage no longer stores requireJSONValueParsed")
		return
	}
	q := &an.PathQ{Fn: fn, StartAfter: marks,
		Sink: func(in ssa.Instruction, _ *an.PathState) bool {
			st, ok := in.(*ssa.Store)
			if !ok {
				return false
			}
			fa, ok := st.Addr.(*ssa.FieldAddr)
			if !ok || !isParam(an.Strip(fa.X), fn, 0) {
				return false
			}
			return an.FieldOf(fa) != parsed
		}}
	w, found := q.Find()
	if found {
		c.Bad(fn, "parsed flag published last", marks[0].Pos(), "shouldPassMessage marks the lazily parsed --require-json-value as parsed and fills the parsed fields afterwards: a handler running concurrently (one PublishHandler serves every destination's goroutines) sees parsed=true with the number not set, decides the message does not match, and go-nsq finishes it unpublished", w)
	} else {
		c.OK(fn, "parsed flag published last", marks[0].Pos(), "")
	}
}

// capturedOrigins: the origins of v; when v is a load of a variable the closure g captured, the origins of what the
// enclosing function stored into that variable.
func capturedOrigins(g *ssa.Function, v ssa.Value) []ssa.Value {
	ld, ok := v.(*ssa.UnOp)
	if ok && ld.Op == token.MUL {
		if fv, ok := ld.X.(*ssa.FreeVar); ok && g.Parent() != nil {
			idx := -1
			for i, f := range g.FreeVars {
				if f == fv {
					idx = i
				}
			}
			var out []ssa.Value
			an.Instrs(g.Parent(), func(in ssa.Instruction) {
				mc, ok := in.(*ssa.MakeClosure)
				if !ok || mc.Fn != ssa.Value(g) || idx < 0 || idx >= len(mc.Bindings) {
					return
				}
				for _, r := range an.Referrers(mc.Bindings[idx]) {
					if st, ok := r.(*ssa.Store); ok && st.Addr == mc.Bindings[idx] {
						out = append(out, originsOrNone(st.Val)...)
					}
				}
			})
			if len(out) > 0 {
				return out
			}
		}
	}
	return originsOrNone(v)
}

// ---- C02.popnil ----------------------------------------------------------------------------------------------

func init() {
	reg("C02.popnil", "PATH", "the message returned by popInFlightMessage/popDeferredMessage is not dereferenced on the failure edge", 4, c02popnil)
	p := Props["C02"]
	p.Explanation += " (popnil) a refused answer touches no message."
	Props["C02"] = p
}

// c02popnil: a FIN/REQ/TOUCH for a message the connection does not hold makes the pop return (nil, err). Whatever runs on
// that edge must not read through the nil message: the panic is on the connection's goroutine, which nothing recovers.
func c02popnil(c *an.Ctx) {
	n := 0
	for _, name := range []string{"(*Channel).popInFlightMessage", "(*Channel).popDeferredMessage"} {
		pop := c.Fn("nsqd", name)
		if pop == nil {
			continue
		}
		for _, fn := range c.P.PkgFuncs("nsqd") {
			for _, pc := range an.CallsTo(fn, pop) {
				n++
				_, fail := an.ErrEdges(pc.Value())
				msgs := an.ResultN(pc.Value(), 0)
				if len(fail) == 0 || len(msgs) == 0 {
					c.OK(fn, "no use of the message after a failed "+pop.Name(), pc.Pos(), "")
					continue
				}
				isMsg := func(v ssa.Value) bool {
					v = an.Strip(v)
					for _, m := range msgs {
						if v == m {
							return true
						}
					}
					return false
				}
				q := &an.PathQ{Fn: fn, StartEdges: fail, Sink: func(in ssa.Instruction, _ *an.PathState) bool {
					switch x := in.(type) {
					case *ssa.FieldAddr:
						return isMsg(x.X)
					case *ssa.UnOp:
						return x.Op == token.MUL && isMsg(x.X)
					}
					return false
				}}
				w, found := q.Find()
				if found {
					c.Bad(fn, "no use of the message after a failed "+pop.Name(), pc.Pos(), an.FnName(fn)+" reads through the message "+pop.Name()+" returned on the path where it failed (nil): a FIN, REQ or TOUCH for a message this connection does not hold – late, duplicate, or from the wrong connection – panics in the connection's goroutine and takes nsqd down instead of being answered E_*_FAILED", w)
				} else {
					c.OK(fn, "no use of the message after a failed "+pop.Name(), pc.Pos(), "")
				}
			}
		}
	}
	c.Check(n >= 4, nil, "pop call sites located", token.NoPos, "", "fewer than four calls of popInFlightMessage/popDeferredMessage found")
}
