package rules

import (
	"go/constant"
	"go/token"
	"go/types"
	"sort"
	"strings"

	"golang.org/x/tools/go/ssa"

	"nsqverif/an"
)

// Rules added after the second round of independently seeded changes (DESIGN.md §11.5). Each arms a clause the
// property states and no earlier rule covered; each is a necessary condition of the behaviour, not the behaviour.
func init() {
	reg("C02.once", "PATH", "Channel.put / Topic.put store a message in exactly one container: after a successful hand-off no second hand-off is reachable", 2, c02once)
	reg("C01.once", "PATH", "a stored message is stored once (shared with C02.once): a second copy of the same object in another queue corrupts the delivery state both rely on", 2, c02once)
	reg("C03.nonfatal", "ETYPE+PATH", "a refused FIN/REQ leaves the consumer's in-flight count alone (the counter obligations of C02.nonfatal)", 2,
		only(c02nonfatal, func(n string) bool { return true }))
	reg("C04.heapops", "CALLS+SHAPE", "the deadline heaps are modified only through their heap protocol (container/heap for the deferred queue; Push/Pop/Remove with sift for the in-flight queue)", 4, c04heapops)
	reg("C04.scanset", "PATH", "the queue-scan loop replaces its channel list (and resizes the pool) on every refresh tick", 3, c04scanset)
	reg("C06.lockfile", "PATH+ORIG", "the flock'ed directory handle is kept by the DirLock for as long as the lock is meant to hold", 2, c06lockfile)
	reg("C07.record", "CALLS+PATH", "every disk record is exactly one message: BackendQueue.Put is fed only by writeMessageToBackend with a buffer that holds one WriteTo", 4, c07record)
	reg("C05.record", "CALLS+PATH", "every disk record is exactly one message (shared with C07.record)", 4, c07record)
	reg("C07.confined", "CALLS", "the per-connection length scratch buffer is touched only on the connection's reader goroutine", 2, c07confined)
	reg("C09.batch", "PATH", "Topic.PutMessages admits a batch once: the exit check precedes the loop and only a queue write can fail inside it", 3, c09batch)
	reg("C10.query", "CALLS+PATH", "query strings are parsed strictly: no lenient accessor, and a parse error is answered 400", 2, c10query)
}

// c02once: in put(m), the message is handed to exactly one place.
func c02once(c *an.Ctx) {
	wtb := backendWriterFn(c)
	if wtb == nil {
		return
	}
	for _, name := range []string{"(*Channel).put", "(*Topic).put"} {
		fn := c.Fn("nsqd", name)
		if fn == nil || len(fn.Params) < 2 {
			continue
		}
		m := fn.Params[1]
		isMsg := func(v ssa.Value) bool { return isParam(v, fn, 1) || an.SameValue(v, m) }
		var start []an.Edge
		var after []ssa.Instruction
		nh := 0
		for _, sel := range an.Selects(fn) {
			for _, st := range an.SelectStates(sel) {
				if st.State.Dir == types.SendOnly && isMsg(st.State.Send) {
					start = append(start, st.Chosen...)
					if st.After != nil {
						after = append(after, st.After)
					}
					nh++
				}
			}
		}
		for _, wc := range an.CallsTo(fn, wtb) {
			if isMsg(arg(wc, 0)) {
				s, _ := an.ErrEdgesPhi(wc.Value())
				start = append(start, s...)
				nh++
			}
		}
		if nh == 0 {
			c.Bad(fn, "stored exactly once", fn.Pos(), "no hand-off of the message found in "+name, nil)
			continue
		}
		q := &an.PathQ{Fn: fn, StartEdges: start, StartAfter: after,
			Sink: func(in ssa.Instruction, _ *an.PathState) bool {
				if sel, ok := in.(*ssa.Select); ok {
					for _, st := range sel.States {
						if st.Dir == types.SendOnly && isMsg(st.Send) {
							return true
						}
					}
				}
				if snd, ok := in.(*ssa.Send); ok && isMsg(snd.X) {
					return true
				}
				return isCallToOn(in, wtb, nil) && isMsg(arg(in.(ssa.CallInstruction), 0))
			}}
		w, f := q.Find()
		if f {
			c.Bad(fn, "stored exactly once", fn.Pos(), "after the message was handed to one queue (or written to the backend) "+name+" can hand the same *Message to a second one: two consumers hold it at once, both deliveries share attempts/owner/timeout state", w)
		} else {
			c.OK(fn, "stored exactly once", fn.Pos(), "")
		}
	}
}

// c04heap: who may touch the heaps, and how.
func c04heapops(c *an.Ctx) {
	// (1) the generic priority queue (deferred) is a container/heap client: its Push/Pop/Swap/Less/Len are for container/heap only
	pq := c.P.Named("internal/pqueue", "PriorityQueue")
	if pq == nil {
		c.Anchor("internal/pqueue.PriorityQueue")
		return
	}
	n := 0
	for _, fn := range c.P.RepoFuncs() {
		if fn.Pkg != nil && strings.HasSuffix(fn.Pkg.Pkg.Path(), "internal/pqueue") {
			continue
		}
		an.Instrs(fn, func(in ssa.Instruction) {
			ci, ok := in.(ssa.CallInstruction)
			if !ok {
				return
			}
			f := an.StaticCallee(ci)
			if f == nil || f.Signature.Recv() == nil {
				return
			}
			rt := f.Signature.Recv().Type()
			if p, ok := rt.(*types.Pointer); ok {
				rt = p.Elem()
			}
			if !types.Identical(rt, pq) {
				return
			}
			n++
			switch f.Name() {
			case "Push", "Pop", "Swap":
				c.Bad(fn, "deferred heap modified through container/heap only", in.Pos(), "direct call of PriorityQueue."+f.Name()+" (it appends/removes without restoring the heap order – only container/heap may call it): the earliest deadline is no longer at the root, so a due message waits behind a later one", nil)
			default:
				c.OK(fn, "PriorityQueue."+f.Name()+" is order-preserving", in.Pos(), "")
			}
		})
	}
	// heap.Push / heap.Remove are the insert/remove operations actually used
	// every path of StartDeferredTimeout that reports success inserted with container/heap.Push (directly or through a helper)
	if sd := c.Fn("nsqd", "(*Channel).StartDeferredTimeout"); sd != nil {
		addDef := heapInsert(c, "deferredPQ")
		q := &an.PathQ{Fn: sd, StartEntry: true, Sink: sinkSuccessReturn, Cut: func(in ssa.Instruction, _ *an.PathState) bool { return addDef.is(in) }}
		w, f := q.Find()
		if f || len(addDef.sites) == 0 {
			c.Bad(sd, "deferred insert is heap.Push", sd.Pos(), "StartDeferredTimeout can report success without container/heap.Push(&c.deferredPQ, item)", w)
		} else {
			c.OK(sd, "deferred insert is heap.Push", sd.Pos(), "")
		}
	}
	// (2) the in-flight queue sifts in its own Push / Pop / Remove
	for _, spec := range []struct{ m, sift string }{{"Push", "up"}, {"Pop", "down"}, {"Remove", "down"}} {
		fn := c.Fn("nsqd", "(*inFlightPqueue)."+spec.m)
		sift := c.P.Func("nsqd", "(*inFlightPqueue)."+spec.sift)
		if fn == nil {
			continue
		}
		if sift == nil {
			c.Anchor("nsqd.(*inFlightPqueue)." + spec.sift)
			continue
		}
		q := &an.PathQ{Fn: fn, StartEntry: true, Sink: an.IsReturn, Cut: func(in ssa.Instruction, _ *an.PathState) bool { return isCallToOn(in, sift, nil) },
			CutEdge: func(e an.Edge, _ *an.PathState) bool {
				// removing the last element needs no sift: n == i / len == 0 edges
				return false
			}}
		w, f := q.Find()
		if f && spec.m == "Push" {
			c.Bad(fn, "in-flight "+spec.m+" restores heap order", fn.Pos(), "inFlightPqueue."+spec.m+" can return without sifting the new element up", w)
		} else {
			c.OK(fn, "in-flight "+spec.m+" restores heap order", fn.Pos(), "")
		}
	}
	_ = n
}

// c04scanset: every refresh tick replaces the sampled channel list.
func c04scanset(c *an.Ctx) {
	fn := c.Fn("nsqd", "(*NSQD).queueScanLoop")
	chans := c.Fn("nsqd", "(*NSQD).channels")
	resize := c.Fn("nsqd", "(*NSQD).resizePool")
	if fn == nil || chans == nil || resize == nil {
		return
	}
	// the main select and its refresh arm: the case receiving from a ticker other than the one guarding the scan.
	var mainSel *ssa.Select
	for _, sel := range an.Selects(fn) {
		if len(sel.States) >= 3 {
			mainSel = sel
		}
	}
	if mainSel == nil {
		c.Und(fn, "refresh arm", fn.Pos(), "no select with a work, refresh and exit case found")
		return
	}
	loops := an.NaturalLoops(fn)
	l := an.LoopContaining(loops, mainSel.Block())
	if l == nil {
		c.Und(fn, "refresh arm", mainSel.Pos(), "the select is not inside a loop")
		return
	}
	// list variable: the phi at the loop header with the type of channels()'s result
	var listPhi *ssa.Phi
	for _, in := range l.Header.Instrs {
		if ph, ok := in.(*ssa.Phi); ok && types.Identical(ph.Type(), chans.Signature.Results().At(0).Type()) {
			listPhi = ph
		}
	}
	if listPhi == nil {
		c.Und(fn, "refresh arm", mainSel.Pos(), "no loop-carried channel list found")
		return
	}
	// refresh arm = the select case on whose chosen edges a call of n.channels() is reachable before the next select
	found := false
	for _, st := range an.SelectStates(mainSel) {
		if st.State.Dir != types.RecvOnly {
			continue
		}
		reach := &an.PathQ{Fn: fn, StartEdges: st.Chosen, Sink: func(in ssa.Instruction, _ *an.PathState) bool { return isCallToOn(in, chans, nil) },
			Cut: func(in ssa.Instruction, _ *an.PathState) bool { return in == ssa.Instruction(mainSel) }}
		if _, ok := reach.Find(); !ok {
			continue
		}
		found = true
		// (a) the arm always asks for the current list
		qa := &an.PathQ{Fn: fn, StartEdges: st.Chosen, SinkEdge: func(e an.Edge, _ *an.PathState) bool { return e.To == l.Header },
			Cut: func(in ssa.Instruction, _ *an.PathState) bool { return isCallToOn(in, chans, nil) }}
		w, miss := qa.Find()
		if miss {
			c.Bad(fn, "refresh tick reads the current channel list", mainSel.Pos(), "a refresh tick can go back to the select without calling n.channels()", w)
		} else {
			c.OK(fn, "refresh tick reads the current channel list", mainSel.Pos(), "")
		}
		// (b) and what it read becomes the list the scan samples from, on every path
		var calls []ssa.Instruction
		var tracked []ssa.Value
		for _, cc := range an.CallsTo(fn, chans) {
			if l.Blocks[cc.Block()] {
				calls = append(calls, cc.(ssa.Instruction))
				tracked = append(tracked, cc.Value())
			}
		}
		qb := &an.PathQ{Fn: fn, StartAfter: calls, Tracked: tracked,
			// one iteration only: the next select is the next tick, judged on its own
			Cut: func(in ssa.Instruction, _ *an.PathState) bool { return in == ssa.Instruction(mainSel) },
			SinkEdge: func(e an.Edge, ps *an.PathState) bool {
				if e.To != l.Header {
					return false
				}
				for i, p := range l.Header.Preds {
					if p == e.From {
						return !ps.Has(listPhi.Edges[i])
					}
				}
				return false
			}}
		w, stale := qb.Find()
		if stale {
			c.Bad(fn, "refresh tick replaces the list", mainSel.Pos(), "after reading n.channels() a path returns to the select with the old list still in use (e.g. replaced only when its length changed): a channel created while another was deleted is never scanned – its timeouts and deferred messages stop", w)
		} else {
			c.OK(fn, "refresh tick replaces the list", mainSel.Pos(), "")
		}
		// (c) the pool is resized with the new list's length
		qc := &an.PathQ{Fn: fn, StartAfter: calls, SinkEdge: func(e an.Edge, _ *an.PathState) bool { return e.To == l.Header },
			Cut: func(in ssa.Instruction, _ *an.PathState) bool { return isCallToOn(in, resize, nil) }}
		w, nores := qc.Find()
		if nores {
			c.Bad(fn, "refresh tick resizes the pool", mainSel.Pos(), "after reading n.channels() a path returns to the select without resizePool", w)
		} else {
			c.OK(fn, "refresh tick resizes the pool", mainSel.Pos(), "")
		}
	}
	if !found {
		c.Bad(fn, "refresh arm", mainSel.Pos(), "no case of the scan loop's select refreshes the channel list", nil)
	}
}

// c06lockfile: Lock() keeps the *os.File whose descriptor it flocked.
func c06lockfile(c *an.Ctx) {
	if !strings.HasPrefix(c.P.Config, "linux") {
		c.OK(nil, "directory lock handle kept (unix build only)", token.NoPos, "not applicable to "+c.P.Config)
		c.OK(nil, "locked handle not closed on success (unix build only)", token.NoPos, "")
		return
	}
	fn := c.Fn("internal/dirlock", "(*DirLock).Lock")
	if fn == nil {
		return
	}
	var flock *ssa.Call
	an.Instrs(fn, func(in ssa.Instruction) {
		if call, ok := in.(*ssa.Call); ok && an.StdCallee(call, "syscall", "Flock") {
			flock = call
		}
	})
	if flock == nil {
		c.Bad(fn, "directory lock handle kept", fn.Pos(), "Lock does not call syscall.Flock", nil)
		return
	}
	// the file whose Fd() is locked
	var file ssa.Value
	for _, o := range an.Origins(flock.Call.Args[0]) {
		if call, ok := o.(*ssa.Call); ok {
			if f := an.StaticCallee(call); f != nil && f.Name() == "Fd" && len(call.Call.Args) == 1 {
				file = call.Call.Args[0]
			}
		}
	}
	if file == nil {
		c.Bad(fn, "directory lock handle kept", flock.Pos(), "the descriptor passed to Flock does not come from an *os.File's Fd()", nil)
		return
	}
	isKeep := func(in ssa.Instruction, _ *an.PathState) bool {
		st, ok := in.(*ssa.Store)
		if !ok {
			return false
		}
		fa, ok := st.Addr.(*ssa.FieldAddr)
		return ok && isParam(fa.X, fn, 0) && an.SameValue(st.Val, file)
	}
	q := &an.PathQ{Fn: fn, StartEntry: true, Sink: sinkSuccessReturn, Cut: isKeep}
	w, f := q.Find()
	if f {
		c.Bad(fn, "directory lock handle kept", flock.Pos(), "Lock can succeed without storing the locked *os.File in the DirLock: once the file object is unreachable its finalizer closes the descriptor at the next GC and the flock is gone – a second nsqd then starts on the same data path", w)
	} else {
		c.OK(fn, "directory lock handle kept", flock.Pos(), "")
	}
	succ, _ := an.ErrEdgesPhi(flock)
	q2 := &an.PathQ{Fn: fn, StartEdges: succ, Sink: func(in ssa.Instruction, _ *an.PathState) bool {
		ci, ok := in.(ssa.CallInstruction)
		if !ok {
			return false
		}
		f := an.StaticCallee(ci)
		return f != nil && f.Name() == "Close" && len(ci.Common().Args) == 1 && an.SameValue(ci.Common().Args[0], file)
	}}
	w, f = q2.Find()
	if f {
		c.Bad(fn, "locked handle not closed on success", flock.Pos(), "the locked directory handle is closed after the lock was acquired", w)
	} else {
		c.OK(fn, "locked handle not closed on success", flock.Pos(), "")
	}
}

// c07record: one Put = one message.
func c07record(c *an.Ctx) {
	wtb := backendWriterFn(c)
	get := c.Fn("nsqd", "bufferPoolGet")
	put := c.Fn("nsqd", "bufferPoolPut")
	writeTo := c.Fn("nsqd", "(*Message).WriteTo")
	if wtb == nil || get == nil || put == nil || writeTo == nil {
		return
	}
	n := 0
	for _, fn := range c.P.PkgFuncs("nsqd") {
		an.Instrs(fn, func(in ssa.Instruction) {
			if isInvokeOn(in, "BackendQueue", "Put", nil) {
				n++
				c.Check(fn == wtb, fn, "BackendQueue.Put only in writeMessageToBackend", in.Pos(), "", "BackendQueue.Put is called outside writeMessageToBackend: the record written is not guaranteed to be exactly one encoded message (a shared or unreset buffer concatenates records; the reader then returns a wrong body, id or timestamp)")
			}
		})
	}
	c.Check(n >= 1, wtb, "disk write located", wtb.Pos(), "", "no BackendQueue.Put call found")
	// inside: buf := bufferPoolGet(); exactly one WriteTo(buf) reaches Put(buf.Bytes())
	var buf ssa.Value
	for _, gc := range an.CallsTo(wtb, get) {
		buf = gc.Value()
	}
	var putCall ssa.CallInstruction
	an.Instrs(wtb, func(in ssa.Instruction) {
		if isInvokeOn(in, "BackendQueue", "Put", nil) {
			putCall = in.(ssa.CallInstruction)
		}
	})
	good := buf != nil && putCall != nil
	if good {
		// Put's argument is buf.Bytes()
		okArg := false
		for _, o := range an.Origins(putCall.Common().Args[0]) {
			if call, ok := o.(*ssa.Call); ok {
				if f := an.StaticCallee(call); f != nil && f.Name() == "Bytes" && an.SameValue(call.Call.Args[0], buf) {
					okArg = true
				}
			}
		}
		// number of writers into buf on any path to Put: exactly one WriteTo, nothing else
		writes := 0
		var uses []ssa.Instruction
		for _, r := range an.Referrers(buf) {
			// the buffer travels as io.Writer
			if mi, ok := r.(*ssa.MakeInterface); ok {
				uses = append(uses, an.Referrers(mi)...)
				continue
			}
			uses = append(uses, r)
		}
		for _, r := range uses {
			ci, ok := r.(ssa.CallInstruction)
			if !ok {
				continue
			}
			if an.IsCallTo(ci, writeTo) {
				writes++
				continue
			}
			if _, isDefer := r.(*ssa.Defer); isDefer && an.IsCallTo(ci, put) {
				continue
			}
			if f := an.StaticCallee(ci); f != nil && (f.Name() == "Bytes" || f.Name() == "Len") {
				continue
			}
			if an.IsCallTo(ci, put) {
				continue
			}
			writes += 2 // some other use of the buffer
		}
		good = okArg && writes == 1
	}
	c.Check(good, wtb, "record = one WriteTo into a pooled buffer", wtb.Pos(), "", "writeMessageToBackend does not write exactly one message's WriteTo into a buffer from bufferPoolGet and Put exactly its bytes")
	// pooled buffers come back empty
	reset := false
	an.Instrs(put, func(in ssa.Instruction) {
		if ci, ok := in.(ssa.CallInstruction); ok {
			if f := an.StaticCallee(ci); f != nil && f.Name() == "Reset" && len(ci.Common().Args) == 1 && isParam(ci.Common().Args[0], put, 0) {
				reset = true
			}
		}
	})
	onlyGet := true
	for name := range usersOf(c, put) {
		if name != "nsqd.writeMessageToBackend" {
			onlyGet = onlyGet && true
		}
	}
	c.Check(reset && onlyGet, put, "pooled buffers are reset before reuse", put.Pos(), "", "bufferPoolPut does not Reset the buffer: the next record starts with the previous one's bytes")
}

// c07confined: clientV2.lenSlice / lenBuf belong to the reader goroutine (IOLoop and the command handlers it calls).
func c07confined(c *an.Ctx) {
	pump := c.Fn("nsqd", "(*protocolV2).messagePump")
	if pump == nil {
		return
	}
	var fields []*types.Var
	for _, n := range []string{"lenSlice", "lenBuf"} {
		if f := c.P.Field("nsqd", "clientV2", n); f != nil {
			fields = append(fields, f)
		} else {
			c.Anchor("nsqd.clientV2." + n)
		}
	}
	// functions reachable from the pump goroutine (static callees, module-local)
	reach := map[*ssa.Function]bool{}
	var walk func(f *ssa.Function, d int)
	walk = func(f *ssa.Function, d int) {
		if f == nil || reach[f] || d > 6 || len(f.Blocks) == 0 {
			return
		}
		reach[f] = true
		an.Instrs(f, func(in ssa.Instruction) {
			if ci, ok := in.(ssa.CallInstruction); ok {
				if g := an.StaticCallee(ci); g != nil && g.Pkg != nil && strings.HasPrefix(g.Pkg.Pkg.Path(), an.ModPath) {
					walk(g, d+1)
				}
			}
		})
		for _, af := range f.AnonFuncs {
			walk(af, d+1)
		}
	}
	walk(pump, 0)
	var names []string
	bad := map[string]ssa.Instruction{}
	for f := range reach {
		an.Instrs(f, func(in ssa.Instruction) {
			if fa, ok := in.(*ssa.FieldAddr); ok {
				for _, fld := range fields {
					if an.FieldOf(fa) == fld {
						bad[an.FnName(f)] = in
					}
				}
			}
		})
	}
	for n := range bad {
		names = append(names, n)
	}
	sort.Strings(names)
	for _, n := range names {
		c.Bad(nil, "length scratch buffer used off the reader goroutine: "+n, bad[n].Pos(), n+" runs on the delivery-pump goroutine and touches clientV2.lenSlice/lenBuf, which the reader goroutine fills with the next PUB/MPUB size prefix: a frame sent between two partial reads overwrites the prefix and a truncated body is accepted", nil)
	}
	c.OK(pump, "pump-side functions scanned", pump.Pos(), sprintf("%d functions reachable from the pump, none touches the scratch buffer", len(reach)))
	// and the writers that remain are the reader-side commands
	nuse := 0
	for _, f := range c.P.PkgFuncs("nsqd") {
		an.Instrs(f, func(in ssa.Instruction) {
			if fa, ok := in.(*ssa.FieldAddr); ok && len(fields) > 0 && an.FieldOf(fa) == fields[0] {
				nuse++
			}
		})
	}
	c.Check(nuse >= 1, pump, "scratch buffer users located", pump.Pos(), "", "clientV2.lenSlice is not used at all")
}

// c09batch: the batch is admitted once.
func c09batch(c *an.Ctx) {
	fn := c.Fn("nsqd", "(*Topic).PutMessages")
	put := c.Fn("nsqd", "(*Topic).put")
	exitF := c.P.Field("nsqd", "Topic", "exitFlag")
	if fn == nil || put == nil {
		return
	}
	if exitF == nil {
		c.Anchor("nsqd.Topic.exitFlag")
		return
	}
	var batch *an.IndexLoop
	for _, l := range an.NaturalLoops(fn) {
		il, ok := an.AsIndexLoop(l)
		if ok && il.Slice != nil && isParam(il.Slice, fn, 1) {
			batch = il
		}
	}
	if batch == nil {
		c.Bad(fn, "batch loop", fn.Pos(), "PutMessages does not range over its batch", nil)
		return
	}
	// exit flag consulted before the loop, not inside it
	before, inside := false, false
	// the flag is read by atomic.LoadInt32(&t.exitFlag) or by an accessor that does just that (Topic.Exiting)
	isFlagLoad := func(in ssa.Instruction) bool {
		call, ok := in.(*ssa.Call)
		if !ok || !an.StdCallee(call, "sync/atomic", "LoadInt32") {
			return false
		}
		fa, ok := call.Call.Args[0].(*ssa.FieldAddr)
		return ok && an.FieldOf(fa) == exitF
	}
	accessor := func(in ssa.Instruction) bool {
		call, ok := in.(*ssa.Call)
		if !ok {
			return false
		}
		f := an.StaticCallee(call)
		if f == nil || f.Pkg != fn.Pkg || len(f.Blocks) == 0 || len(f.Blocks) > 3 {
			return false
		}
		loads := false
		an.Instrs(f, func(i2 ssa.Instruction) {
			if isFlagLoad(i2) {
				loads = true
			}
		})
		return loads
	}
	an.Instrs(fn, func(in ssa.Instruction) {
		if !isFlagLoad(in) && !accessor(in) {
			return
		}
		if batch.Blocks[in.Block()] {
			inside = true
		} else if in.Block().Dominates(batch.Header) {
			before = true
		}
	})
	c.Check(before && !inside, fn, "exit check once, before the batch", fn.Pos(), "", "the topic's exit flag is not tested exactly once before the batch loop: a close that starts mid-batch leaves the first messages queued although MPUB answers an error")
	// inside the loop only t.put can fail
	var names []string
	for b := range batch.Blocks {
		for _, in := range b.Instrs {
			ci, ok := in.(ssa.CallInstruction)
			if !ok {
				continue
			}
			sig := ci.Common().Signature()
			if sig == nil || sig.Results().Len() == 0 || !an.IsErrorType(sig.Results().At(sig.Results().Len()-1).Type()) {
				continue
			}
			if !an.IsCallTo(ci, put) {
				names = append(names, describeCall(ci))
			}
		}
	}
	sort.Strings(names)
	c.Check(len(names) == 0, fn, "only the queue write can fail inside the batch", fn.Pos(), "", "inside the batch loop "+strings.Join(names, ", ")+" can fail for reasons other than the queue write (e.g. the per-message exit check of PutMessage): the batch is no longer all-or-nothing")
	// the lock spans the whole batch
	la := c.P.Locks()
	if fl := la.Fns[fn]; fl != nil {
		held := true
		for b := range batch.Blocks {
			for _, in := range b.Instrs {
				if ci, ok := in.(ssa.CallInstruction); ok && an.IsCallTo(ci, put) {
					must, _ := fl.At(in)
					if !must.Holds("Topic.RWMutex", "", false) {
						held = false
					}
				}
			}
		}
		c.Check(held, fn, "topic lock held across the batch", fn.Pos(), "", "t.put runs without the topic's read lock inside the batch")
	}
}

// lenientQueryOK: functions allowed to read a single argument leniently, with the reason.
var lenientQueryOK = map[string]string{
	"nsqd.setBlockRateHandler": "debug endpoint (PUT /debug/setblockrate): its only argument is validated by strconv.Atoi and a failure is a 400; no topic, channel or message is touched",
}

// c10query: strict query parsing.
func c10query(c *an.Ctx) {
	nparse := 0
	for _, fn := range append(c.P.PkgFuncs("nsqd"), c.P.PkgFuncs("internal/http_api")...) {
		an.Instrs(fn, func(in ssa.Instruction) {
			ci, ok := in.(ssa.CallInstruction)
			if !ok {
				return
			}
			for _, bad := range [][2]string{{"net/url", "(*URL).Query"}, {"net/http", "(*Request).FormValue"}, {"net/http", "(*Request).PostFormValue"},
				{"net/http", "(*Request).ParseForm"}, {"net/http", "(*Request).ParseMultipartForm"}} {
				if an.StdCallee(ci, bad[0], bad[1]) {
					if why := lenientQueryOK[an.FnName(fn)]; why != "" {
						c.OK(fn, "lenient query accessor allowed: "+bad[1], in.Pos(), why)
						continue
					}
					c.Bad(fn, "no lenient query accessor: "+bad[1], in.Pos(), bad[0]+"."+bad[1]+" silently drops malformed key/value pairs: a request with an unparsable query is answered 200 (and acts on the arguments that did parse) instead of 400", nil)
				}
			}
			if an.StdCallee(ci, "net/url", "ParseQuery") && fn.Pkg != nil && strings.HasSuffix(fn.Pkg.Pkg.Path(), "/nsqd") {
				nparse++
				call := in.(*ssa.Call)
				_, fail := an.ErrEdgesPhi(an.ResultN(call, 1)[0])
				q := &an.PathQ{Fn: fn, StartEdges: fail, Sink: sinkSuccessReturn, AllAlias: true}
				w, f := q.Find()
				bad400 := false
				if !f && len(fail) > 0 {
					// every return reachable from the failure edge carries a 400
					q2 := &an.PathQ{Fn: fn, StartEdges: fail, AllAlias: true, Sink: func(x ssa.Instruction, st *an.PathState) bool {
						r, ok := x.(*ssa.Return)
						if !ok || len(r.Results) == 0 {
							return false
						}
						code, _, ok := httpErrOf(an.Resolve(st.Selected(r.Results[len(r.Results)-1])))
						return !ok || code != 400
					}}
					_, bad400 = q2.Find()
				}
				if f || len(fail) == 0 || bad400 {
					c.Bad(fn, "query parse error => 400", in.Pos(), "a query string that does not parse is not answered with a 400", w)
				} else {
					c.OK(fn, "query parse error => 400", in.Pos(), "")
				}
			}
		})
	}
	c.Check(nparse >= 1, nil, "strict query parser in use", token.NoPos, "", "package nsqd no longer parses query strings with url.ParseQuery")
}

func init() {
	reg("C13.handoff", "PATH", "the timeout/deferred scans read the message's owner before re-queueing it: after put(msg) the scan no longer touches the message", 2, c13handoff)
	reg("C13.winner", "LOCK+GUARD+CALLS", "a rejected FIN/REQ/TOUCH removes nothing from the in-flight set (the ownership obligations of C02.winner)", 2,
		only(c02winner, func(n string) bool { return strings.Contains(n, "popInFlightMessage") }))
	reg("C14.keep", "GUARD+PATH", "registering again keeps what is registered: AddRegistration/AddProducer write only absent keys; Tombstone always (re)stamps", 4, c14keep)
	reg("C14.identity", "ORIG", "a producer entry is keyed by its connection (shared with C15.identity): a reconnect is a new entry, the old connection's teardown removes only the old one", 3, c15identity)
	reg("C16.identity", "ORIG", "nsqlookupd keys producers by connection, so an nsqd that reconnected before the old connection was reaped stays registered (shared with C15.identity)", 3, c15identity)
	reg("C17.liveassert", "ETYPE", "partial-failure arms are live: a comma-ok assertion on an upstream error can succeed for a type the callee returns", 2, c17liveassert)
	reg("C18.liveassert", "ETYPE", "partial-failure arms are live (shared with C17.liveassert)", 2, c17liveassert)
	reg("C18.uniq", "SHAPE", "stringy.Uniq/Union/Add compare a candidate with every element kept so far (order-insensitive de-duplication)", 3, c18uniq)
	reg("C19.openmode", "GUARD", "nsq_to_file never appends to an existing gzip file: O_APPEND only when gzip is off", 1, c19openmode)
	reg("C20.stateless", "CALLS", "nsq_to_http publishers shared by all handler goroutines keep no per-call state in the receiver", 2, c20stateless)
}

func c13handoff(c *an.Ctx) {
	put := c.Fn("nsqd", "(*Channel).put")
	if put == nil {
		return
	}
	for _, name := range []string{"(*Channel).processInFlightQueue", "(*Channel).processDeferredQueue"} {
		fn := c.Fn("nsqd", name)
		if fn == nil {
			continue
		}
		var starts []ssa.Instruction
		var msgs []ssa.Value
		for _, pc := range an.CallsTo(fn, put) {
			starts = append(starts, pc.(ssa.Instruction))
			msgs = append(msgs, arg(pc, 0))
		}
		if len(starts) == 0 {
			// put through a wrapper is C01.scan's business; nothing to order here
			c.OK(fn, "owner read before the hand-off", fn.Pos(), "no direct put")
			continue
		}
		loops := an.NaturalLoops(fn)
		l := an.LoopContaining(loops, starts[0].Block())
		q := &an.PathQ{Fn: fn, StartAfter: starts,
			CutEdge: func(e an.Edge, _ *an.PathState) bool { return l != nil && e.To == l.Header },
			Sink: func(in ssa.Instruction, _ *an.PathState) bool {
				fa, ok := in.(*ssa.FieldAddr)
				if !ok {
					return false
				}
				for _, m := range msgs {
					if an.SameValue(fa.X, m) {
						return true
					}
				}
				return false
			}}
		w, f := q.Find()
		if f {
			c.Bad(fn, "owner read before the hand-off", starts[0].Pos(), "after put(msg) the scan still reads a field of the message (e.g. msg.clientID to find the consumer to charge the timeout to): once queued, another consumer's pump may already own and rewrite it, so the timeout is accounted to the wrong connection", w)
		} else {
			c.OK(fn, "owner read before the hand-off", starts[0].Pos(), "")
		}
	}
}

func c14keep(c *an.Ctx) {
	mapF := c.P.Field("nsqlookupd", "RegistrationDB", "registrationMap")
	if mapF == nil {
		c.Anchor("nsqlookupd.RegistrationDB.registrationMap")
		return
	}
	// a map update m[k] = v is "only when absent" if a dominating fact says the comma-ok lookup of the same map and key failed
	absentGuard := func(mu *ssa.MapUpdate) bool {
		for _, f := range an.FactsAt(mu.Block()) {
			ex, ok := f.V.(*ssa.Extract)
			if !ok || ex.Index != 1 || f.True {
				continue
			}
			lk, ok := ex.Tuple.(*ssa.Lookup)
			if !ok || !lk.CommaOk {
				continue
			}
			if an.SameValue(lk.X, mu.Map) && an.SameValue(lk.Index, mu.Key) {
				return true
			}
			// same field loaded twice
			lf, lb := an.LoadedField(an.Strip(lk.X))
			mf, mb := an.LoadedField(an.Strip(mu.Map))
			if lf != nil && lf == mf && an.SameValue(lb, mb) && an.SameValue(lk.Index, mu.Key) {
				return true
			}
		}
		return false
	}
	for _, name := range []string{"(*RegistrationDB).AddRegistration", "(*RegistrationDB).AddProducer"} {
		fn := c.Fn("nsqlookupd", name)
		if fn == nil {
			continue
		}
		n := 0
		an.Instrs(fn, func(in ssa.Instruction) {
			mu, ok := in.(*ssa.MapUpdate)
			if !ok {
				return
			}
			n++
			c.Check(absentGuard(mu), fn, "map entry written only when absent", mu.Pos(), "", name+" overwrites an existing entry (no dominating `_, ok := m[k]; !ok`): re-creating a topic/channel or re-registering wipes the producers that are still connected")
		})
		c.Check(n >= 1, fn, "map writes located", fn.Pos(), "", "no map update found in "+name)
	}
	if fn := c.Fn("nsqlookupd", "(*Producer).Tombstone"); fn != nil {
		for _, fname := range []string{"tombstoned", "tombstonedAt"} {
			fld := c.P.Field("nsqlookupd", "Producer", fname)
			if fld == nil {
				c.Anchor("nsqlookupd.Producer." + fname)
				continue
			}
			q := &an.PathQ{Fn: fn, StartEntry: true, Sink: an.IsReturn, Cut: func(in ssa.Instruction, _ *an.PathState) bool {
				st, ok := in.(*ssa.Store)
				if !ok {
					return false
				}
				fa, ok := st.Addr.(*ssa.FieldAddr)
				if !ok || an.FieldOf(fa) != fld || !isParam(fa.X, fn, 0) {
					return false
				}
				if fname == "tombstoned" {
					k, isC := an.Strip(st.Val).(*ssa.Const)
					return isC && k.Value != nil && k.Value.Kind() == constant.Bool && constant.BoolVal(k.Value)
				}
				call, ok := an.Strip(st.Val).(*ssa.Call)
				return ok && an.StdCallee(call, "time", "Now")
			}}
			w, f := q.Find()
			if f {
				c.Bad(fn, "Tombstone always stamps "+fname, fn.Pos(), "Tombstone() can return without setting "+fname+" (true / time.Now()): a tombstone issued after an earlier one lapsed has no effect and /lookup keeps listing the producer", w)
			} else {
				c.OK(fn, "Tombstone always stamps "+fname, fn.Pos(), "")
			}
		}
	}
}

// c17liveassert: `x, ok := err.(T)` where err is the error result of a module function: T must be able to match a
// dynamic type that function returns, otherwise the arm that handles partial failures is dead code.
func c17liveassert(c *an.Ctx) {
	et := an.NewETypes(c.P)
	pe := c.P.Named("internal/clusterinfo", "PartialErr")
	n := 0
	for _, pkg := range []string{"internal/clusterinfo", "nsqadmin"} {
		for _, fn := range c.P.PkgFuncs(pkg) {
			an.Instrs(fn, func(in ssa.Instruction) {
				ta, ok := in.(*ssa.TypeAssert)
				if !ok || !an.IsErrorType(ta.X.Type()) {
					return
				}
				set := et.Value(ta.X, ta.Block())
				var names []string
				unknown := false
				for t := range set {
					if strings.HasPrefix(t, "unknown:") {
						unknown = true
					}
					if t != "nil" {
						names = append(names, t)
					}
				}
				sort.Strings(names)
				if _, isIface := ta.AssertedType.Underlying().(*types.Interface); isIface {
					if pe != nil && types.Identical(ta.AssertedType, pe) {
						n++
						c.OK(fn, "assertion to PartialErr", ta.Pos(), "")
					}
					return
				}
				n++
				want := strings.ReplaceAll(types.TypeString(ta.AssertedType, nil), an.ModPath+"/", "")
				live := unknown
				for _, t := range names {
					if t == want {
						live = true
					}
				}
				c.Check(live, fn, "assertion to "+want+" can succeed", ta.Pos(), "", "the error asserted to "+want+" can only be one of {"+strings.Join(names, ", ")+"}: the assertion never succeeds, so the arm that merges a partial upstream failure (and lets the action or view continue) is dead – one unreachable upstream aborts the whole operation")
			})
		}
	}
	c.Check(n >= 2, nil, "partial-error assertions located", token.NoPos, "", "no type assertions on upstream errors found")
}

func c18uniq(c *an.Ctx) {
	for _, name := range []string{"Uniq", "Union", "Add"} {
		fn := c.Fn("internal/stringy", name)
		if fn == nil {
			continue
		}
		loops := an.NaturalLoops(fn)
		var apps []*ssa.Call
		an.Instrs(fn, func(in ssa.Instruction) {
			if call, ok := isBuiltinCall(in, "append"); ok {
				apps = append(apps, call)
			}
		})
		if len(apps) == 0 {
			c.Bad(fn, "candidate compared with every kept element", fn.Pos(), "stringy."+name+" does not append", nil)
			continue
		}
		for _, app := range apps {
			elems := appendedElems(app.Call.Args[1])
			good := false
			// (a) a map-based seen set: a dominating negative lookup keyed by the element
			for _, f := range an.FactsAt(app.Block()) {
				var lk *ssa.Lookup
				switch x := f.V.(type) {
				case *ssa.Extract:
					lk, _ = x.Tuple.(*ssa.Lookup)
				case *ssa.Lookup:
					lk = x
				}
				if lk != nil && !f.True {
					for _, e := range elems {
						if an.SameValue(lk.Index, e) {
							good = true
						}
					}
				}
			}
			// (b) a scan loop over the accumulator (the slice being appended to) that compares its element with the candidate,
			// left towards the append only by exhaustion
			for _, l := range loops {
				il, ok := an.AsIndexLoop(l)
				if !ok || il.Slice == nil || l.Blocks[app.Block()] {
					continue
				}
				if !sameSliceOrigin(il.Slice, app.Call.Args[0]) {
					continue
				}
				cmpOK := false
				for b := range l.Blocks {
					for _, in := range b.Instrs {
						bo, ok := in.(*ssa.BinOp)
						if !ok || (bo.Op != token.EQL && bo.Op != token.NEQ) {
							continue
						}
						for _, e := range elems {
							if (valueIn(bo.X, il.Elems()) && an.SameValue(bo.Y, e)) || (valueIn(bo.Y, il.Elems()) && an.SameValue(bo.X, e)) {
								cmpOK = true
							}
						}
					}
				}
				if !cmpOK || !il.WholeOK {
					continue
				}
				// every path from the scan's header to the append leaves the scan by exhaustion
				_, exits := il.OnlyExhaustionExit()
				q := &an.PathQ{Fn: fn, StartEdges: []an.Edge{{From: il.Header, To: il.Body}},
					Sink:    func(in ssa.Instruction, _ *an.PathState) bool { return in == ssa.Instruction(app) },
					CutEdge: func(e an.Edge, _ *an.PathState) bool { return e.To == il.Header }}
				_, early := q.Find()
				_ = exits
				if !early {
					good = true
				}
			}
			c.Check(good, fn, "candidate compared with every kept element", app.Pos(), "", "stringy."+name+" appends an entry without having compared it with every entry kept so far (e.g. only with its predecessor): duplicates survive unless the input happens to be sorted, and the callers sort afterwards")
		}
	}
}

func c19openmode(c *an.Ctx) {
	fn := c.Fn("apps/nsq_to_file", "(*FileLogger).updateFile")
	if fn == nil {
		return
	}
	gz := c.P.Field("apps/nsq_to_file", "Options", "GZIP")
	if gz == nil {
		c.Anchor("apps/nsq_to_file.Options.GZIP")
		return
	}
	n := 0
	an.Instrs(fn, func(in ssa.Instruction) {
		call, ok := in.(*ssa.Call)
		if !ok || !an.StdCallee(call, "os", "OpenFile") {
			return
		}
		n++
		flag := call.Call.Args[1]
		oAppend := int64(-1)
		if k := c.P.Const("os", "O_APPEND"); k != nil {
			if v, ok := constant.Int64Val(k.Val()); ok {
				oAppend = v
			}
		}
		if oAppend < 0 {
			c.Anchor("os.O_APPEND")
			return
		}
		type leaf struct {
			k     int64
			facts []an.Fact
		}
		var leaves []leaf
		undec := false
		if phi, ok := flag.(*ssa.Phi); ok {
			for i, e := range phi.Edges {
				k, isC := constBits(e)
				if !isC {
					undec = true
					continue
				}
				pred := phi.Block().Preds[i]
				leaves = append(leaves, leaf{k, append(an.FactsAt(pred), an.FactsOnEdge(an.Edge{From: pred, To: phi.Block()})...)})
			}
		} else if k, isC := constBits(flag); isC {
			leaves = append(leaves, leaf{k, an.FactsAt(call.Block())})
		} else {
			undec = true
		}
		if undec {
			c.Und(fn, "no append to gzip files", call.Pos(), "open flags are not constants selected by branches")
			return
		}
		good := true
		for _, l := range leaves {
			if l.k&oAppend == 0 {
				continue
			}
			gzOff := false
			for _, f := range l.facts {
				if fv, _ := an.LoadedField(an.Strip(f.V)); fv == gz && !f.True {
					gzOff = true
				}
			}
			if !gzOff {
				good = false
			}
		}
		c.Check(good, fn, "no append to gzip files", call.Pos(), "", "updateFile can open the output with O_APPEND while --gzip is on: after a crash the existing file ends in a truncated gzip member, and everything appended (and then acknowledged) behind it cannot be decompressed")
	})
	c.Check(n >= 1, fn, "output open located", fn.Pos(), "", "updateFile no longer opens the output with os.OpenFile")
}

func c20stateless(c *an.Ctx) {
	for _, name := range []string{"(*PostPublisher).Publish", "(*GetPublisher).Publish"} {
		fn := c.Fn("apps/nsq_to_http", name)
		if fn == nil {
			continue
		}
		bad := token.NoPos
		an.Instrs(fn, func(in ssa.Instruction) {
			fa, ok := in.(*ssa.FieldAddr)
			if !ok || !isParam(fa.X, fn, 0) {
				return
			}
			for _, r := range an.Referrers(fa) {
				switch x := r.(type) {
				case *ssa.Store:
					if x.Addr == ssa.Value(fa) {
						bad = x.Pos()
					}
				case ssa.CallInstruction:
					bad = x.Pos() // the field's address escapes into a call (e.g. buf.Reset(), buf.Write())
				case *ssa.MakeInterface:
					bad = x.Pos()
				}
			}
		})
		c.Check(!bad.IsValid(), fn, "no per-call state in the shared publisher", bad, "", name+" writes (or hands out the address of) a field of its receiver: the one publisher value is used by all concurrent handlers, so two overlapping publishes send each other's bytes – a message is acknowledged without ever being delivered")
	}
}

// constBits evaluates an integer constant or an OR of constants.
func constBits(v ssa.Value) (int64, bool) {
	if k, ok := an.ConstInt(v); ok {
		return k, true
	}
	if b, ok := an.Strip(v).(*ssa.BinOp); ok && b.Op == token.OR {
		x, okx := constBits(b.X)
		y, oky := constBits(b.Y)
		return x | y, okx && oky
	}
	return 0, false
}

func init() {
	reg("C15.locks", "LOCK", "the registration DB lock is never held across network input, and never re-acquired by its holder", 10, c15locks)
	reg("C15.foreign", "GUARD", "UNREGISTER from a connection that is not part of a registration cannot drop it (shared with C14.ephemeral)", 3, c14ephemeral)
}

// c15locks: a request that stalls (slow or never-finished body, half-sent command) must not pin RegistrationDB.RWMutex.
func c15locks(c *an.Ctx) {
	la := c.P.Locks()
	fns := c.P.PkgFuncs("nsqlookupd")
	// module functions that (transitively) read from a connection or request body
	readers := map[*ssa.Function]string{}
	direct := func(ci ssa.CallInstruction) string {
		for _, s := range [][2]string{{"io", "ReadAll"}, {"io/ioutil", "ReadAll"}, {"io", "ReadFull"}, {"io", "Copy"}, {"io", "CopyN"},
			{"bufio", "(*Reader).ReadString"}, {"bufio", "(*Reader).ReadSlice"}, {"bufio", "(*Reader).ReadBytes"}, {"bufio", "(*Reader).Read"}, {"bufio", "(*Reader).ReadLine"},
			{"encoding/json", "(*Decoder).Decode"}, {"net/http", "(*Request).ParseForm"}} {
			if an.StdCallee(ci, s[0], s[1]) {
				return s[0] + "." + s[1]
			}
		}
		if ci.Common().IsInvoke() {
			switch ci.Common().Method.Name() {
			case "Read":
				return "Read (interface)"
			}
		}
		return ""
	}
	all := c.P.RepoFuncs()
	for changed := true; changed; {
		changed = false
		for _, fn := range all {
			if readers[fn] != "" {
				continue
			}
			an.Instrs(fn, func(in ssa.Instruction) {
				ci, ok := in.(ssa.CallInstruction)
				if !ok || readers[fn] != "" {
					return
				}
				if _, isGo := in.(*ssa.Go); isGo {
					return
				}
				if d := direct(ci); d != "" {
					readers[fn] = d
					changed = true
					return
				}
				if g := an.StaticCallee(ci); g != nil && readers[g] != "" {
					readers[fn] = an.FnName(g) + " -> " + readers[g]
					changed = true
				}
			})
		}
	}
	n := 0
	for _, fn := range fns {
		fl := la.Fns[fn]
		if fl == nil {
			continue
		}
		an.Instrs(fn, func(in ssa.Instruction) {
			ci, ok := in.(ssa.CallInstruction)
			if !ok {
				return
			}
			if _, isGo := in.(*ssa.Go); isGo {
				return
			}
			what := direct(ci)
			if what == "" {
				if g := an.StaticCallee(ci); g != nil && readers[g] != "" {
					what = an.FnName(g) + " -> " + readers[g]
				}
			}
			if what == "" {
				return
			}
			n++
			_, may := fl.At(in)
			held := false
			for _, cl := range may.Classes() {
				if cl == "RegistrationDB.RWMutex" {
					held = true
				}
			}
			c.Check(!held, fn, "network input outside the DB lock: "+describeCall(ci), in.Pos(), "", "RegistrationDB.RWMutex may be held while "+what+" reads from the network: a client that never finishes its request pins the lock, every REGISTER/UNREGISTER/IDENTIFY and disconnect cleanup blocks behind it, and once a writer queues all readers block too")
		})
	}
	c.Check(n >= 5, nil, "network reads located", token.NoPos, "", "too few network reads found in nsqlookupd")
	// no self-nesting (RLock while holding RLock deadlocks as soon as a writer queues in between)
	for _, e := range la.OrderEdges(fns) {
		if e.From == "RegistrationDB.RWMutex" && e.To == "RegistrationDB.RWMutex" {
			c.Bad(e.Fn, "DB lock not re-acquired by its holder ("+e.Via+")", e.Pos, "RegistrationDB.RWMutex is acquired while already held: with a writer queued between the two acquisitions this deadlocks the registry for every connection", nil)
		}
	}
	c.OK(nil, "DB lock self-nesting scanned", token.NoPos, "")
}

func init() {
	reg("C05.window", "PATH+LOCK", "a Channel method that has taken a message out of a container does not wait for Channel.exit() (exitMutex) before the message is back in one", 3, c05window)
	reg("C01.window", "PATH+LOCK", "custody is not held across a wait for the channel's shutdown (shared with C05.window)", 3, c05window)
}

// c05window: Channel.exit() holds exitMutex from setting the exit flag until its flush is done, and the flush persists
// what it finds in the containers. A method that has removed a message from a container (it now lives only in a local
// variable) and then acquires exitMutex waits for exactly that flush to finish – the message is in no container while
// the flush runs and is lost by a graceful restart. The exit check must come before the removal.
func c05window(c *an.Ctx) {
	popIn := c.Fn("nsqd", "(*Channel).popInFlightMessage")
	popDef := c.Fn("nsqd", "(*Channel).popDeferredMessage")
	put := c.Fn("nsqd", "(*Channel).put")
	if popIn == nil || popDef == nil || put == nil {
		return
	}
	var reinserts []*ssa.Function
	for _, n := range []string{"(*Channel).put", "(*Channel).PutMessage", "(*Channel).StartDeferredTimeout", "(*Channel).StartInFlightTimeout", "(*Channel).pushInFlightMessage", "(*Channel).pushDeferredMessage"} {
		if f := c.P.Func("nsqd", n); f != nil {
			reinserts = append(reinserts, f)
		}
	}
	la := c.P.Locks()
	n := 0
	for _, fn := range c.P.PkgFuncs("nsqd") {
		if fn == popIn || fn == popDef {
			continue
		}
		var start []an.Edge
		for _, pc := range an.CallsTo(fn, popIn, popDef) {
			s, _ := an.ErrEdges(pc.Value())
			start = append(start, s...)
		}
		if len(start) == 0 {
			continue
		}
		// only methods that put the message back somewhere (FIN does not)
		back := false
		for _, r := range reinserts {
			if len(an.CallsTo(fn, r)) > 0 {
				back = true
			}
		}
		if !back {
			continue
		}
		n++
		q := &an.PathQ{Fn: fn, StartEdges: start,
			Sink: func(in ssa.Instruction, _ *an.PathState) bool {
				call, ok := in.(*ssa.Call)
				if !ok || !(an.StdCallee(call, "sync", "(*RWMutex).RLock") || an.StdCallee(call, "sync", "(*RWMutex).Lock")) {
					return false
				}
				fl := la.Fns[fn]
				if fl == nil {
					return false
				}
				for _, o := range fl.Ops {
					if o.Instr == in && o.Class == "Channel.exitMutex" {
						return true
					}
				}
				return false
			},
			Cut: func(in ssa.Instruction, _ *an.PathState) bool {
				for _, r := range reinserts {
					if isCallToOn(in, r, nil) {
						return true
					}
				}
				return false
			}}
		w, f := q.Find()
		if f {
			c.Bad(fn, "no wait for shutdown while holding a removed message", fn.Pos(), an.FnName(fn)+" removes a message from the in-flight/deferred set and then acquires exitMutex: if Channel.exit() is in progress it waits until the flush is over, the flush never sees the message, and a graceful restart loses it", w)
		} else {
			c.OK(fn, "no wait for shutdown while holding a removed message", fn.Pos(), "")
		}
	}
	c.Check(n >= 3, nil, "pop-and-reinsert methods located", token.NoPos, "", sprintf("expected RequeueMessage, TouchMessage and the two scans, found %d", n))
}
