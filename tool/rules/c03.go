package rules

import (
	"go/token"
	"go/types"
	"strings"

	"golang.org/x/tools/go/ssa"

	"nsqverif/an"
)

func init() {
	Props["C03"] = PropInfo{
		Explanation: "Decides the flow-control gates, not the running bound over histories: (rdy) SetReadyCount is reachable from RDY only for 0 <= count <= MaxRdyCount and the reject arm is fatal; " +
			"(ready) IsReadyForMessages is true only if the channel is not paused, ready > 0 and in-flight < ready; (notready) on the not-ready edge every message source of the pump's select is nil, and readiness is re-evaluated on every loop iteration; " +
			"(count) in-flight counters move only on the success side of their transition (send, FIN, REQ, timeout of the owner); (cls) CLS forces RDY 0 and later RDYs are ignored; " +
			"(topicpause) a paused topic's pump selects on nil queues after every pause/update token; publishing never tests the pause flag; (wake) pause/unpause store the flag and then wake every consumer / the pump.",
		NotDecided:  "the running bound in-flight <= RDY under concurrent Empty (F8, counter reset vs FIN); the 'within the output-buffer timeout' timing clause.",
		Assumptions: []string{"atomic loads/stores of ReadyCount, InFlightCount, paused are sequentially consistent (sync/atomic)"},
	}
	reg("C03.rdy", "GUARD", "RDY: SetReadyCount only for 0 <= count <= MaxRdyCount; reject arm is a fatal E_INVALID", 3, c03rdy)
	reg("C03.ready", "GUARD", "IsReadyForMessages true only under !paused && ready > 0 && inFlight < ready", 1, c03ready)
	reg("C03.notready", "ORIG+PATH", "consumer pump: not ready => every message source of the select is nil; readiness re-evaluated every iteration", 2, c03notready)
	reg("C03.count", "PATH", "timeout scan decrements the owner's in-flight count after winning the pop; SetReadyCount stores the count and wakes the pump", 3, c03count)
	reg("C03.cls", "PATH", "CLS -> StartClose -> RDY 0 and stateClosing; RDY while closing is ignored", 4, c03cls)
	reg("C03.topicpause", "ORIG+PATH", "topic pump: paused (or no channels) => queue sources nil after every token; publish path never consults the pause flag", 3, c03topicpause)
	reg("C03.wake", "PATH", "pause/unpause store the flag matching the request, then wake every consumer (channel) / hand a token to the pump (topic)", 4, c03wake)
	reg("C03.notify", "PATH", "every change of a readiness input (RDY count, in-flight count, pause) wakes the connection's pump", 8, c03notify)
}

// optsField: v is a load of Options.<name> (through getOpts()).
func isOptsField(c *an.Ctx, v ssa.Value, pkg, name string) bool {
	f, _ := an.LoadedField(an.Strip(v))
	return f != nil && f == c.P.Field(pkg, "Options", name)
}

// errValueIs: error value v is built by ctor with a code in codes – directly, or as the (non-nil) result of a
// helper of this module all of whose error returns are.
func errValueIs(v ssa.Value, ctor *ssa.Function, codes []string, depth int) (bool, string) {
	if depth > 3 {
		return false, "helper nesting too deep"
	}
	for _, o := range an.Origins(v) {
		if k, ok := o.(*ssa.Const); ok && k.Value == nil {
			continue
		}
		var call *ssa.Call
		switch x := o.(type) {
		case *ssa.Call:
			call = x
		case *ssa.Extract:
			call, _ = x.Tuple.(*ssa.Call)
		}
		if call == nil {
			return false, "returns " + o.String() + ", not " + ctor.Name()
		}
		if an.IsCallTo(call, ctor) {
			code, ok := an.ConstString(call.Call.Args[1])
			okc := false
			for _, k := range codes {
				if ok && code == k {
					okc = true
				}
			}
			if !okc {
				return false, "error code " + code + " is not one of the documented codes"
			}
			continue
		}
		h := an.StaticCallee(call)
		if h == nil || h.Blocks == nil || h.Pkg == nil || !strings.HasPrefix(h.Pkg.Pkg.Path(), an.ModPath) {
			return false, "returns the result of " + call.String() + ", not " + ctor.Name()
		}
		// a helper is looked into only if it returns an error-typed value built by ctor; another constructor
		// (NewClientErr where NewFatalClientErr is documented) is a different error class, not a helper
		sigRes := h.Signature.Results()
		if sigRes.Len() == 0 || !an.IsErrorType(sigRes.At(sigRes.Len()-1).Type()) {
			return false, "returns the result of " + h.Name() + ", not " + ctor.Name()
		}
		for _, r := range an.Returns(h) {
			e := errOperand(r)
			if e == nil || an.IsNilConst(e) {
				continue
			}
			if ok, why := errValueIs(e, ctor, codes, depth+1); !ok {
				return false, "helper " + h.Name() + ": " + why
			}
		}
	}
	return true, ""
}

// errReturnsFrom: every return reachable from the given edges carries an error built by ctor with a code in codes.
func errReturnsFrom(fn *ssa.Function, edges []an.Edge, ctor *ssa.Function, codes ...string) (bool, string, []string) {
	why := ""
	q := &an.PathQ{Fn: fn, StartEdges: edges, AllAlias: true, Sink: func(in ssa.Instruction, st *an.PathState) bool {
		r, ok := in.(*ssa.Return)
		if !ok {
			return false
		}
		e := errOperandOn(r, st)
		if e == nil {
			why = "returns without an error"
			return true
		}
		if ok, w := errValueIs(e, ctor, codes, 0); !ok {
			why = w
			return true
		}
		return false
	}}
	w, f := q.Find()
	return !f, why, w
}

func c03rdy(c *an.Ctx) {
	fn := c.Fn("nsqd", "(*protocolV2).RDY")
	set := c.Fn("nsqd", "(*clientV2).SetReadyCount")
	fatal := c.P.Func("internal/protocol", "NewFatalClientErr")
	if fn == nil || set == nil || fatal == nil {
		return
	}
	calls := an.CallsTo(fn, set)
	if len(calls) == 0 {
		c.Bad(fn, "SetReadyCount", fn.Pos(), "RDY never sets the ready count", nil)
		return
	}
	for _, ci := range calls {
		cnt := an.Strip(arg(ci, 0))
		b := an.BoundsOf(ci.Block(), func(v ssa.Value) bool { return v == cnt })
		lowOK, upOK := false, false
		var guardIfs []*ssa.If
		for _, l := range b.Lower {
			if k, isC := an.ConstInt(l.Y); isC && ((l.Op == token.GEQ && k == 0) || (l.Op == token.GTR && k == -1)) {
				lowOK = true
				guardIfs = append(guardIfs, l.If)
			}
		}
		for _, u := range b.Upper {
			if u.Op == token.LEQ && isOptsField(c, u.Y, "nsqd", "MaxRdyCount") {
				upOK = true
				guardIfs = append(guardIfs, u.If)
			}
		}
		c.Check(lowOK, fn, "RDY lower bound 0", ci.Pos(), "", "SetReadyCount is reachable with a negative count (reject region must be count < 0)")
		c.Check(upOK, fn, "RDY upper bound MaxRdyCount", ci.Pos(), "", "SetReadyCount is not dominated by count <= opts.MaxRdyCount (reject region must be exactly count > MaxRdyCount)")
		if lowOK && upOK {
			var reject []an.Edge
			for _, ifi := range guardIfs {
				blk := ifi.Block()
				for _, s := range blk.Succs {
					if !s.Dominates(ci.Block()) && s != ci.Block() {
						reject = append(reject, an.Edge{From: blk, To: s})
					}
				}
			}
			// keep only edges that cannot reach the call
			var rej []an.Edge
			for _, e := range reject {
				q := &an.PathQ{Fn: fn, StartEdges: []an.Edge{e}, Sink: func(in ssa.Instruction, _ *an.PathState) bool { return in == ci.(ssa.Instruction) }}
				if _, f := q.Find(); !f {
					rej = append(rej, e)
				}
			}
			ok, why, w := errReturnsFrom(fn, rej, fatal, "E_INVALID")
			if ok && len(rej) > 0 {
				c.OK(fn, "RDY reject arm is fatal E_INVALID", ci.Pos(), "")
			} else {
				c.Bad(fn, "RDY reject arm is fatal E_INVALID", ci.Pos(), "out-of-range RDY is not answered with the fatal E_INVALID: "+why, w)
			}
		}
	}
	// SetReadyCount stores its argument
	rcF := c.P.Field("nsqd", "clientV2", "ReadyCount")
	stored := false
	an.Instrs(set, func(in ssa.Instruction) {
		call, ok := in.(*ssa.Call)
		if !ok {
			return
		}
		if an.StdCallee(call, "sync/atomic", "SwapInt64") || an.StdCallee(call, "sync/atomic", "StoreInt64") {
			if fa, ok := call.Call.Args[0].(*ssa.FieldAddr); ok && an.FieldOf(fa) == rcF && isParam(call.Call.Args[1], set, 1) {
				stored = true
			}
		}
	})
	c.Check(stored, set, "stores the count", set.Pos(), "", "SetReadyCount does not store its argument into ReadyCount")
}

// atomicLoadOf: v is atomic.LoadIntNN(&base.field) for the given field.
func atomicLoadOf(v ssa.Value, f *types.Var) bool {
	call, ok := an.Strip(v).(*ssa.Call)
	if !ok {
		return false
	}
	fn := an.StaticCallee(call)
	if fn == nil || fn.Pkg == nil || fn.Pkg.Pkg.Path() != "sync/atomic" || len(call.Call.Args) != 1 {
		return false
	}
	fa, ok := call.Call.Args[0].(*ssa.FieldAddr)
	return ok && an.FieldOf(fa) == f
}

func c03ready(c *an.Ctx) {
	fn := c.Fn("nsqd", "(*clientV2).IsReadyForMessages")
	isPaused := c.Fn("nsqd", "(*Channel).IsPaused")
	if fn == nil || isPaused == nil {
		return
	}
	rcF := c.P.Field("nsqd", "clientV2", "ReadyCount")
	ifF := c.P.Field("nsqd", "clientV2", "InFlightCount")
	chF := c.P.Field("nsqd", "clientV2", "Channel")
	n := 0
	for _, rc := range returnCases(fn, 0) {
		r, v := rc.ret, rc.val
		if k, ok := v.(*ssa.Const); ok && k.Value != nil && k.Value.String() == "false" {
			continue
		}
		n++
		notPaused, readyPos, below := false, false, false
		facts := rc.facts
		// a returned boolean expression also contributes (return a && b) – treat the returned value itself as a fact
		if _, isConst := v.(*ssa.Const); !isConst {
			facts = append(facts, an.ExpandFact(an.Fact{V: v, True: true})...)
		}
		for _, f := range facts {
			if call, ok := f.V.(*ssa.Call); ok && !f.True && an.IsCallTo(call, isPaused) && isLoadOfField(recvArg(call), chF) {
				notPaused = true
			}
			cmp, ok := f.AsCmp()
			if !ok {
				continue
			}
			if oc, ok := cmp.Oriented(func(x ssa.Value) bool { return atomicLoadOf(x, rcF) }); ok {
				if k, isC := an.ConstInt(oc.Y); isC && ((oc.Op == token.GTR && k == 0) || (oc.Op == token.GEQ && k == 1)) {
					readyPos = true
				}
			}
			if oc, ok := cmp.Oriented(func(x ssa.Value) bool { return atomicLoadOf(x, ifF) }); ok {
				if oc.Op == token.LSS && atomicLoadOf(oc.Y, rcF) {
					below = true
				}
			}
		}
		ok := notPaused && readyPos && below
		msg := ""
		if !notPaused {
			msg += "channel not paused; "
		}
		if !readyPos {
			msg += "ready count > 0; "
		}
		if !below {
			msg += "in-flight < ready count; "
		}
		c.Check(ok, fn, "ready only when unpaused and below RDY", r.Pos(), "", "IsReadyForMessages can return true without: "+msg+"a consumer is then sent messages beyond its RDY / while paused")
	}
	if n == 0 {
		c.Bad(fn, "ready only when unpaused and below RDY", fn.Pos(), "IsReadyForMessages never returns true", nil)
	}
}

// msgSourceStates returns the select in fn that receives *Message and, for it, the indices of states whose
// element type is *Message or []byte.
func msgSelect(c *an.Ctx, fn *ssa.Function) (*ssa.Select, []int) {
	msgT := c.P.Named("nsqd", "Message")
	for _, sel := range an.Selects(fn) {
		var idx []int
		hasMsg := false
		for i, st := range sel.States {
			if st.Dir != types.RecvOnly {
				continue
			}
			el := an.ChanElem(st.Chan)
			if pt, ok := el.(*types.Pointer); ok && types.Identical(pt.Elem(), msgT) {
				idx = append(idx, i)
				hasMsg = true
			} else if sl, ok := el.(*types.Slice); ok && types.Identical(sl.Elem(), types.Typ[types.Byte]) {
				idx = append(idx, i)
			}
		}
		if hasMsg {
			return sel, idx
		}
	}
	return nil, nil
}

func c03notready(c *an.Ctx) {
	fn := c.Fn("nsqd", "(*protocolV2).messagePump")
	isReady := c.Fn("nsqd", "(*clientV2).IsReadyForMessages")
	if fn == nil || isReady == nil {
		return
	}
	sel, srcs := msgSelect(c, fn)
	if sel == nil {
		c.Und(fn, "queue select", fn.Pos(), "no select receiving *Message")
		return
	}
	loops := an.NaturalLoops(fn)
	mainLoop := an.LoopContaining(loops, sel.Block())
	var notReady []an.Edge
	var readyCalls []ssa.Instruction
	for _, rc := range an.CallsTo(fn, isReady) {
		if !isParam(recvArg(rc), fn, 1) {
			continue
		}
		readyCalls = append(readyCalls, rc)
		for _, t := range an.BoolTests(rc.Value()) {
			notReady = append(notReady, t.False)
		}
		// a case expression `sub == nil || !client.IsReadyForMessages()` is evaluated as a value: a phi of true and the
		// negated call, tested afterwards; its true edge is where "not ready" can hold
		an.Instrs(fn, func(in ssa.Instruction) {
			ifi, ok := in.(*ssa.If)
			if !ok {
				return
			}
			phi, ok := ifi.Cond.(*ssa.Phi)
			if !ok {
				return
			}
			for _, e := range phi.Edges {
				neg := false
				v := e
				if u, ok := v.(*ssa.UnOp); ok && u.Op == token.NOT {
					v, neg = u.X, true
				}
				if v != rc.Value() {
					continue
				}
				b := ifi.Block()
				if neg {
					notReady = append(notReady, an.Edge{From: b, To: b.Succs[0]})
				} else {
					notReady = append(notReady, an.Edge{From: b, To: b.Succs[1]})
				}
			}
		})
	}
	if len(notReady) == 0 || mainLoop == nil {
		c.Bad(fn, "not ready => nil sources", sel.Pos(), "the pump does not test client.IsReadyForMessages() before selecting on the queues", nil)
		return
	}
	// the subChannel == nil edge also counts as "not ready"
	subEvF := c.P.Field("nsqd", "clientV2", "SubEventChan")
	_ = subEvF
	var badState string
	q := &an.PathQ{Fn: fn, StartEdges: notReady, AllConsts: true,
		Sink: func(in ssa.Instruction, st *an.PathState) bool {
			if in != ssa.Instruction(sel) {
				return false
			}
			for _, i := range srcs {
				ch := sel.States[i].Chan
				k, ok := st.ConstOf(ch)
				if !ok || k.Value != nil {
					badState = sprintf("select case #%d (%s) still has a live channel", i, ch.Type())
					return true
				}
			}
			return false
		}}
	firstSelect := func(in ssa.Instruction, st *an.PathState) bool { return in == ssa.Instruction(sel) && !q.Sink(in, st) }
	q.Cut = firstSelect
	w, f := q.Find()
	if f {
		c.Bad(fn, "not ready => nil sources", sel.Pos(), "when the client is not ready (RDY exhausted, RDY 0, CLS, channel paused) the pump still selects on a message source: "+badState+" => a message is sent beyond the consumer's RDY", w)
	} else {
		c.OK(fn, "not ready => nil sources", sel.Pos(), sprintf("%d message sources nil on the not-ready edge", len(srcs)))
	}
	// readiness re-evaluated on every iteration: every path header -> select passes the IsReady call or has subChannel == nil
	var nilSub []an.Edge
	for _, rc := range readyCalls {
		// the short-circuit: a block that branches on `x == nil` whose false edge leads to the ready call block
		for _, p := range rc.Block().Preds {
			if ifi, ok := p.Instrs[len(p.Instrs)-1].(*ssa.If); ok {
				if b, ok := ifi.Cond.(*ssa.BinOp); ok && (b.Op == token.EQL || b.Op == token.NEQ) && (an.IsNilConst(b.X) || an.IsNilConst(b.Y)) {
					for _, s := range p.Succs {
						if s != rc.Block() {
							nilSub = append(nilSub, an.Edge{From: p, To: s})
						}
					}
				}
			}
		}
	}
	q2 := &an.PathQ{Fn: fn, NoFold: true,
		Sink: func(in ssa.Instruction, _ *an.PathState) bool { return in == ssa.Instruction(sel) },
		Cut: func(in ssa.Instruction, _ *an.PathState) bool {
			for _, rc := range readyCalls {
				if rc == in {
					return true
				}
			}
			return false
		},
		CutEdge: func(e an.Edge, _ *an.PathState) bool { return an.EdgeIn(e, nilSub) }}
	for _, p := range mainLoop.Header.Preds {
		q2.StartEdges = append(q2.StartEdges, an.Edge{From: p, To: mainLoop.Header})
	}
	w, f = q2.Find()
	if f {
		c.Bad(fn, "readiness re-evaluated every iteration", sel.Pos(), "an iteration of the pump can reach the queue select without re-evaluating IsReadyForMessages: a RDY decrease, CLS or pause does not stop delivery", w)
	} else {
		c.OK(fn, "readiness re-evaluated every iteration", sel.Pos(), "")
	}
	// nil-subchannel edge: sources nil as well
	if len(nilSub) > 0 {
		q3 := &an.PathQ{Fn: fn, StartEdges: nilSub, AllConsts: true, Sink: q.Sink, Cut: firstSelect}
		w, f := q3.Find()
		if f {
			c.Bad(fn, "unsubscribed => nil sources", sel.Pos(), "before SUB the pump selects on a live message source: "+badState, w)
		} else {
			c.OK(fn, "unsubscribed => nil sources", sel.Pos(), "")
		}
	}
}

func c03count(c *an.Ctx) { c03countOf(c, true) }

// c13count: the statistics property needs every counter's delta, not only the in-flight count.
func c13count(c *an.Ctx) { c03countOf(c, false) }

func c03countOf(c *an.Ctx, onlyInFlight bool) {
	fn := c.Fn("nsqd", "(*Channel).processInFlightQueue")
	pop := c.Fn("nsqd", "(*Channel).popInFlightMessage")
	put := c.Fn("nsqd", "(*Channel).put")
	if fn == nil || pop == nil || put == nil {
		return
	}
	clientsF := c.P.Field("nsqd", "Channel", "clients")
	clientIDF := c.P.Field("nsqd", "Message", "clientID")
	var succ []an.Edge
	for _, pc := range an.CallsTo(fn, pop) {
		s, _ := an.ErrEdges(pc.Value())
		succ = append(succ, s...)
	}
	// lookups of the owner
	var notFound []an.Edge
	var owners []ssa.Value
	an.Instrs(fn, func(in ssa.Instruction) {
		l, ok := in.(*ssa.Lookup)
		if !ok || !isLoadOfField(l.X, clientsF) {
			return
		}
		if f, _ := an.LoadedField(an.Strip(l.Index)); f != clientIDF {
			return
		}
		owners = append(owners, an.ResultN(l, 0)...)
		for _, okv := range an.ResultN(l, 1) {
			for _, t := range an.BoolTests(okv) {
				notFound = append(notFound, t.False)
			}
		}
	})
	loops := an.NaturalLoops(fn)
	var hdr *ssa.BasicBlock
	for _, pc := range an.CallsTo(fn, pop) {
		if l := an.LoopContaining(loops, pc.Block()); l != nil {
			hdr = l.Header
		}
	}
	q := &an.PathQ{Fn: fn, StartEdges: succ, Sink: an.IsReturn,
		SinkEdge: func(e an.Edge, _ *an.PathState) bool { return e.To == hdr },
		CutEdge:  func(e an.Edge, _ *an.PathState) bool { return an.EdgeIn(e, notFound) },
		Cut: func(in ssa.Instruction, _ *an.PathState) bool {
			return isInvokeOn(in, "Consumer", "TimedOutMessage", func(v ssa.Value) bool { return valueIn(v, owners) })
		}}
	w, f := q.Find()
	if f || len(succ) == 0 {
		c.Bad(fn, "timeout decrements the owner's in-flight count", fn.Pos(), "after the scan won a timed-out message it can re-queue it without TimedOutMessage() on the (still connected) owner: the owner's in-flight count never drops and its RDY window shrinks for ever", w)
	} else {
		c.OK(fn, "timeout decrements the owner's in-flight count", fn.Pos(), "")
	}
	// and never before winning the pop
	q2 := &an.PathQ{Fn: fn, StartEntry: true,
		Sink: func(in ssa.Instruction, _ *an.PathState) bool {
			return isInvokeOn(in, "Consumer", "TimedOutMessage", nil)
		},
		CutEdge: func(e an.Edge, _ *an.PathState) bool { return an.EdgeIn(e, succ) }}
	w, f = q2.Find()
	c.Check(!f, fn, "TimedOutMessage only after winning the pop", fn.Pos(), "", "TimedOutMessage is reachable without a successful popInFlightMessage: a message that was FINished concurrently is counted twice")
	// client counter methods
	for _, spec := range []struct {
		name   string
		deltas map[string]int64
	}{
		{"(*clientV2).SendingMessage", map[string]int64{"InFlightCount": 1, "MessageCount": 1}},
		{"(*clientV2).FinishedMessage", map[string]int64{"InFlightCount": -1, "FinishCount": 1}},
		{"(*clientV2).RequeuedMessage", map[string]int64{"InFlightCount": -1, "RequeueCount": 1}},
		{"(*clientV2).TimedOutMessage", map[string]int64{"InFlightCount": -1}},
	} {
		m := c.Fn("nsqd", spec.name)
		if m == nil {
			continue
		}
		got := map[string]int64{}
		an.Instrs(m, func(in ssa.Instruction) {
			call, ok := in.(*ssa.Call)
			if !ok {
				return
			}
			if an.StdCallee(call, "sync/atomic", "AddInt64") || an.StdCallee(call, "sync/atomic", "AddUint64") {
				if fa, ok := call.Call.Args[0].(*ssa.FieldAddr); ok {
					if k, isC := an.ConstInt(call.Call.Args[1]); isC {
						got[an.FName(an.FieldOf(fa))] += k
					} else if cv, ok := an.Strip(call.Call.Args[1]).(*ssa.Const); ok && cv.Value != nil {
						got[an.FName(an.FieldOf(fa))] += 1 << 40 // non-int64 constant (e.g. ^uint64(0))
					} else {
						got[an.FName(an.FieldOf(fa))] += 1 << 41
					}
				}
			}
		})
		same := len(got) == len(spec.deltas)
		for k, v := range spec.deltas {
			if got[k] != v {
				same = false
			}
		}
		if onlyInFlight {
			same = got["InFlightCount"] == spec.deltas["InFlightCount"]
		}
		c.Check(same, m, "counter deltas", m.Pos(), "", sprintf("expected atomic deltas %v, found %v", spec.deltas, got))
	}
}

func c03cls(c *an.Ctx) {
	cls := c.Fn("nsqd", "(*protocolV2).CLS")
	sc := c.Fn("nsqd", "(*clientV2).StartClose")
	set := c.Fn("nsqd", "(*clientV2).SetReadyCount")
	rdy := c.Fn("nsqd", "(*protocolV2).RDY")
	if cls == nil || sc == nil || set == nil || rdy == nil {
		return
	}
	stateF := c.P.Field("nsqd", "clientV2", "State")
	closing := c.P.Const("nsqd", "stateClosing")
	if closing == nil {
		c.Anchor("nsqd.stateClosing")
		return
	}
	closingV, _ := an.ConstInt(ssa.NewConst(closing.Val(), closing.Type()))
	// CLS: success return passes StartClose
	q := &an.PathQ{Fn: cls, StartEntry: true, Sink: sinkSuccessReturn, Cut: func(in ssa.Instruction, _ *an.PathState) bool {
		return isCallToOn(in, sc, func(v ssa.Value) bool { return isParam(v, cls, 1) })
	}}
	w, f := q.Find()
	if f {
		c.Bad(cls, "CLS starts the close", cls.Pos(), "CLS can answer CLOSE_WAIT without StartClose: messages keep flowing after CLS", w)
	} else {
		c.OK(cls, "CLS starts the close", cls.Pos(), "")
	}
	// StartClose: SetReadyCount(0) and store stateClosing on every path
	readyF := c.P.Field("nsqd", "clientV2", "ReadyCount")
	zero := func(in ssa.Instruction) bool {
		ci, ok := in.(ssa.CallInstruction)
		if !ok {
			return false
		}
		if an.IsCallTo(ci, set) {
			k, isC := an.ConstInt(arg(ci, 0))
			return isC && k == 0
		}
		// SetReadyCount(0) written out: an atomic store/swap of 0 into ReadyCount
		if call, isCall := in.(*ssa.Call); isCall && (an.StdCallee(call, "sync/atomic", "SwapInt64") || an.StdCallee(call, "sync/atomic", "StoreInt64")) {
			if fa, isFA := call.Call.Args[0].(*ssa.FieldAddr); isFA && an.FieldOf(fa) == readyF {
				k, isC := an.ConstInt(call.Call.Args[1])
				return isC && k == 0
			}
		}
		return false
	}
	storeClosing := func(in ssa.Instruction) bool {
		call, ok := in.(*ssa.Call)
		if !ok || !an.StdCallee(call, "sync/atomic", "StoreInt32") {
			return false
		}
		fa, ok := call.Call.Args[0].(*ssa.FieldAddr)
		if !ok || an.FieldOf(fa) != stateF {
			return false
		}
		k, isC := an.ConstInt(call.Call.Args[1])
		return isC && k == closingV
	}
	for _, s := range []step{{"SetReadyCount(0)", zero}, {"store stateClosing", storeClosing}} {
		ok, missing, w := seqOnAllPaths(sc, nil, an.IsReturn, []step{s})
		if ok {
			c.OK(sc, "StartClose: "+s.name, sc.Pos(), "")
		} else {
			c.Bad(sc, "StartClose: "+s.name, sc.Pos(), "StartClose can return without "+missing, w)
		}
	}
	// RDY: on the state == stateClosing edge SetReadyCount is unreachable
	var closingEdges []an.Edge
	an.Instrs(rdy, func(in ssa.Instruction) {
		b, ok := in.(*ssa.BinOp)
		if !ok || (b.Op != token.EQL && b.Op != token.NEQ) {
			return
		}
		k, isC := an.ConstInt(b.Y)
		if !isC || k != closingV || !atomicLoadOf(b.X, stateF) {
			return
		}
		for _, t := range an.BoolTests(b) {
			if b.Op == token.EQL {
				closingEdges = append(closingEdges, t.True)
			} else {
				closingEdges = append(closingEdges, t.False)
			}
		}
	})
	if len(closingEdges) == 0 {
		c.Bad(rdy, "RDY ignored while closing", rdy.Pos(), "RDY does not test for stateClosing: a RDY after CLS re-opens the flow", nil)
	} else {
		q := &an.PathQ{Fn: rdy, StartEdges: closingEdges, Sink: func(in ssa.Instruction, _ *an.PathState) bool { return isCallToOn(in, set, nil) }}
		w, f := q.Find()
		if f {
			c.Bad(rdy, "RDY ignored while closing", rdy.Pos(), "RDY received after CLS still reaches SetReadyCount", w)
		} else {
			c.OK(rdy, "RDY ignored while closing", rdy.Pos(), "")
		}
	}
}

func c03topicpause(c *an.Ctx) {
	fn := c.Fn("nsqd", "(*Topic).messagePump")
	isPaused := c.Fn("nsqd", "(*Topic).IsPaused")
	if fn == nil || isPaused == nil {
		return
	}
	sel, srcs := msgSelect(c, fn)
	if sel == nil {
		c.Und(fn, "queue select", fn.Pos(), "no select receiving *Message in the topic pump")
		return
	}
	var pausedEdges []an.Edge
	for _, pc := range an.CallsTo(fn, isPaused) {
		for _, t := range an.BoolTests(pc.Value()) {
			pausedEdges = append(pausedEdges, t.True)
		}
	}
	if len(pausedEdges) == 0 {
		c.Bad(fn, "paused => nil sources", sel.Pos(), "the topic pump never tests IsPaused()", nil)
		return
	}
	var badState string
	sink := func(in ssa.Instruction, st *an.PathState) bool {
		if in != ssa.Instruction(sel) {
			return false
		}
		for _, i := range srcs {
			k, ok := st.ConstOf(sel.States[i].Chan)
			if !ok || k.Value != nil {
				badState = sprintf("select case #%d still has a live channel", i)
				return true
			}
		}
		return false
	}
	firstSelect := func(in ssa.Instruction, st *an.PathState) bool { return in == ssa.Instruction(sel) && !sink(in, st) }
	q := &an.PathQ{Fn: fn, StartEdges: pausedEdges, AllConsts: true, Sink: sink, Cut: firstSelect}
	w, f := q.Find()
	if f {
		c.Bad(fn, "paused => nil sources", sel.Pos(), "on the edge where the topic is paused the pump still selects on a queue ("+badState+"): a paused topic keeps feeding its channels", w)
	} else {
		c.OK(fn, "paused => nil sources", sel.Pos(), sprintf("%d paused edges, %d sources", len(pausedEdges), len(srcs)))
	}
	// every pauseChan / channelUpdateChan receive in the main select re-evaluates IsPaused (or len(chans)==0) before the next select
	for _, fname := range []string{"pauseChan", "channelUpdateChan"} {
		f := c.P.Field("nsqd", "Topic", fname)
		for _, st := range an.SelectStates(sel) {
			if st.State.Dir != types.RecvOnly || !isLoadOfField(st.State.Chan, f) {
				continue
			}
			// from the chosen edge to the select: passes an IsPaused call, or an edge where len(chans)==0 (then sources nil – checked by AllConsts sink)
			q := &an.PathQ{Fn: fn, StartEdges: st.Chosen, AllConsts: true,
				Sink: func(in ssa.Instruction, ps *an.PathState) bool {
					if in != ssa.Instruction(sel) {
						return false
					}
					// reached the select without evaluating IsPaused: acceptable only if sources are nil
					return sink(in, ps)
				},
				Cut: func(in ssa.Instruction, ps *an.PathState) bool {
					return isCallToOn(in, isPaused, nil) || firstSelect(in, ps)
				}}
			w, found := q.Find()
			if found {
				c.Bad(fn, "token "+fname+" re-evaluates pause", sel.Pos(), "after a "+fname+" token the pump can return to the select with live queues without re-reading the pause flag", w)
			} else {
				c.OK(fn, "token "+fname+" re-evaluates pause", sel.Pos(), "")
			}
		}
	}
	// the start signal arms the queues only after consulting the pause flag
	startF := c.P.Field("nsqd", "Topic", "startChan")
	for _, ssel := range an.Selects(fn) {
		for _, st := range an.SelectStates(ssel) {
			if st.State.Dir != types.RecvOnly || !isLoadOfField(st.State.Chan, startF) {
				continue
			}
			q := &an.PathQ{Fn: fn, StartEdges: st.Chosen, AllConsts: true,
				Sink: func(in ssa.Instruction, ps *an.PathState) bool { return in == ssa.Instruction(sel) && sink(in, ps) },
				Cut: func(in ssa.Instruction, ps *an.PathState) bool {
					return isCallToOn(in, isPaused, nil) || firstSelect(in, ps)
				}}
			w, found := q.Find()
			if found {
				c.Bad(fn, "start re-evaluates pause", ssel.Pos(), "after Start() the pump arms its queues without reading the pause flag: a topic paused before it was started (restored from metadata, or paused while GetTopic was still pre-creating channels) feeds its channels anyway", w)
			} else {
				c.OK(fn, "start re-evaluates pause", ssel.Pos(), "")
			}
		}
	}
	// publish path ignores the pause flag
	pausedF := c.P.Field("nsqd", "Topic", "paused")
	for _, name := range []string{"(*Topic).PutMessage", "(*Topic).PutMessages", "(*Topic).put"} {
		g := c.Fn("nsqd", name)
		if g == nil {
			continue
		}
		bad := len(an.CallsTo(g, isPaused)) > 0
		an.Instrs(g, func(in ssa.Instruction) {
			if fa, ok := in.(*ssa.FieldAddr); ok && an.FieldOf(fa) == pausedF {
				bad = true
			}
		})
		c.Check(!bad, g, "publish ignores pause", g.Pos(), "", "the publish path consults the pause flag: a paused topic must keep accepting publishes")
	}
}

func c03wake(c *an.Ctx) {
	type unit struct {
		val       bool
		want      int64
		consts    map[ssa.Value]*ssa.Const
		construct string
	}
	for _, spec := range []struct{ typ string }{{"Channel"}, {"Topic"}} {
		dp := c.P.Func("nsqd", "(*"+spec.typ+").doPause")
		type target struct {
			fn    *ssa.Function
			units []unit
		}
		var targets []target
		if dp != nil {
			targets = append(targets, target{dp, []unit{
				{true, 1, paramConst(dp, 1, true), "doPause(true): flag then wake"},
				{false, 0, paramConst(dp, 1, false), "doPause(false): flag then wake"}}})
		} else {
			// doPause was inlined into Pause and UnPause: each of them is judged as the unit it now is
			for _, m := range []struct {
				name string
				val  bool
				want int64
			}{{"Pause", true, 1}, {"UnPause", false, 0}} {
				if f := c.Fn("nsqd", "(*"+spec.typ+")."+m.name); f != nil {
					targets = append(targets, target{f, []unit{{m.val, m.want, nil, m.name + ": flag then wake"}}})
				}
			}
		}
		for _, tg := range targets {
			fn := tg.fn
			pausedF := c.P.Field("nsqd", spec.typ, "paused")
			storeOf := func(val int64) func(ssa.Instruction) bool {
				return func(in ssa.Instruction) bool {
					call, ok := in.(*ssa.Call)
					if !ok || !an.StdCallee(call, "sync/atomic", "StoreInt32") {
						return false
					}
					fa, ok := call.Call.Args[0].(*ssa.FieldAddr)
					if !ok || an.FieldOf(fa) != pausedF {
						return false
					}
					_ = val
					return true
				}
			}
			// the stored value, resolved through the constants chosen on the path (`v := 0; if pause { v = 1 }; Store(&paused, v)`)
			storeVal := func(val int64) func(ssa.Instruction, *an.PathState) bool {
				return func(in ssa.Instruction, st *an.PathState) bool {
					call := in.(*ssa.Call)
					if k, isC := an.ConstInt(call.Call.Args[1]); isC {
						return k == val
					}
					if st == stepAny {
						return true
					}
					if st != nil {
						if kc, ok := st.ConstOf(call.Call.Args[1]); ok {
							k, isC := an.ConstInt(kc)
							return isC && k == val
						}
					}
					return false
				}
			}
			var wake step
			if spec.typ == "Channel" {
				clientsF := c.P.Field("nsqd", "Channel", "clients")
				var loop *an.IndexLoop
				var iters []ssa.Instruction // every loop over the consumers that wakes each of them (one per arm is as good as one for both)
				for _, il := range mapRangeLoops(fn, clientsF) {
					// in doPause either call is a wake-up (which one is decided per path, C06.pause); in Pause/UnPause with
					// doPause inlined it must be the matching one
					okPause, okUnPause := true, true
					if dp == nil && len(tg.units) == 1 {
						okPause, okUnPause = tg.units[0].val, !tg.units[0].val
					}
					ok, _ := loopDoesEach(fn, il, func(in ssa.Instruction, elems []ssa.Value) bool {
						if (okPause && isInvokeOn(in, "Consumer", "Pause", func(v ssa.Value) bool { return valueIn(v, elems) })) ||
							(okUnPause && isInvokeOn(in, "Consumer", "UnPause", func(v ssa.Value) bool { return valueIn(v, elems) })) {
							return true
						}
						// the method chosen once, ahead of the loop, as a method expression: `notify(client)`
						if ci, isCall := in.(ssa.CallInstruction); isCall && !ci.Common().IsInvoke() && an.StaticCallee(ci) == nil && len(ci.Common().Args) >= 1 && valueIn(ci.Common().Args[0], elems) {
							names := methodExprNames(ci.Common().Value, "Consumer")
							all := len(names) > 0
							for _, nm := range names {
								if !((okPause && nm == "Pause") || (okUnPause && nm == "UnPause")) {
									all = false
								}
							}
							return all
						}
						return false
					})
					if ok {
						loop = il
						iters = append(iters, ssa.Instruction(il.Iter))
					}
				}
				c.Check(loop != nil, fn, "wakes every consumer", fn.Pos(), "", "doPause does not call Pause()/UnPause() on every consumer: pumps blocked in select never notice the change")
				if loop == nil {
					continue
				}
				wake = step{"wake every consumer", func(in ssa.Instruction) bool {
					for _, it := range iters {
						if in == it {
							return true
						}
					}
					return false
				}}
			} else {
				pauseChF := c.P.Field("nsqd", "Topic", "pauseChan")
				wake = step{"token to pauseChan", func(in ssa.Instruction) bool {
					if s, ok := in.(*ssa.Select); ok {
						for _, st := range s.States {
							if st.Dir == types.SendOnly && isLoadOfField(st.Chan, pauseChF) {
								return s.Blocking
							}
						}
					}
					if s, ok := in.(*ssa.Send); ok && isLoadOfField(s.Chan, pauseChF) {
						return true
					}
					return false
				}}
			}
			for _, pv := range tg.units {
				ok, missing, w := seqOnAllPaths(fn, pv.consts, an.IsReturn, []step{{sprintf("store paused=%d", pv.want), func(in ssa.Instruction) bool { return storeOf(pv.want)(in) && storeVal(pv.want)(in, stepState) }}, wake})
				// and the opposite value is never stored on this path family
				q := &an.PathQ{Fn: fn, StartEntry: true, Consts: pv.consts, AllConsts: true,
					Sink: func(in ssa.Instruction, st *an.PathState) bool { return storeOf(0)(in) && !storeVal(pv.want)(in, st) }}
				_, wrong := q.Find()
				construct := pv.construct
				if ok && !wrong {
					c.OK(fn, construct, fn.Pos(), "")
				} else if wrong {
					c.Bad(fn, construct, fn.Pos(), "the opposite flag value is stored", nil)
				} else {
					c.Bad(fn, construct, fn.Pos(), "a return is reachable without: "+missing, w)
				}
			}
		}
	}
	// Pause/UnPause wrappers forward the right constant
	for _, spec := range []struct {
		typ, m string
		val    string
	}{{"Channel", "Pause", "true"}, {"Channel", "UnPause", "false"}, {"Topic", "Pause", "true"}, {"Topic", "UnPause", "false"}} {
		dp := c.P.Func("nsqd", "(*"+spec.typ+").doPause")
		if dp == nil {
			continue // judged above as units of their own
		}
		fn := c.Fn("nsqd", "(*"+spec.typ+")."+spec.m)
		if fn == nil {
			continue
		}
		good := false
		for _, ci := range an.CallsTo(fn, dp) {
			if k, ok := an.Strip(arg(ci, 0)).(*ssa.Const); ok && k.Value != nil && k.Value.String() == spec.val {
				good = true
			}
		}
		c.Check(good, fn, "forwards doPause("+spec.val+")", fn.Pos(), "", spec.m+" does not forward doPause("+spec.val+")")
	}
}

// readyWakers: the wake-up is defined by what it does, not by the helper's name – a send on clientV2.ReadyStateChan
// (a select with that send arm, or a plain send), or a call of a function of package nsqd that does one on every path to
// its returns (tryUpdateReadyState on the pinned tree; any renamed, inlined or function-style equivalent).
func readyWakers(c *an.Ctx) (isWake func(in ssa.Instruction, _ *an.PathState) bool, sends []ssa.Instruction, wakers map[*ssa.Function]bool) {
	rsF := c.P.Field("nsqd", "clientV2", "ReadyStateChan")
	wakers = map[*ssa.Function]bool{}
	isSend := func(in ssa.Instruction) bool {
		switch x := in.(type) {
		case *ssa.Select:
			for _, st := range x.States {
				if st.Dir == types.SendOnly && isLoadOfField(st.Chan, rsF) {
					return true
				}
			}
		case *ssa.Send:
			return isLoadOfField(x.Chan, rsF)
		}
		return false
	}
	isWake = func(in ssa.Instruction, _ *an.PathState) bool {
		if isSend(in) {
			return true
		}
		if ci, ok := in.(ssa.CallInstruction); ok {
			if _, isGo := in.(*ssa.Go); isGo {
				return false
			}
			if f := an.StaticCallee(ci); f != nil && wakers[f] {
				return true
			}
		}
		return false
	}
	if rsF == nil {
		return
	}
	var cands []*ssa.Function
	for _, g := range c.P.RepoFuncs() {
		if g.Pkg == nil || g.Pkg.Pkg.Path() != an.ModPath+"/nsqd" || len(g.Blocks) == 0 {
			continue
		}
		cands = append(cands, g)
		an.Instrs(g, func(in ssa.Instruction) {
			if isSend(in) {
				sends = append(sends, in)
			}
		})
	}
	for changed := true; changed; {
		changed = false
		for _, g := range cands {
			if wakers[g] {
				continue
			}
			any := false
			an.Instrs(g, func(in ssa.Instruction) {
				if isWake(in, nil) {
					any = true
				}
			})
			if !any {
				continue
			}
			q := &an.PathQ{Fn: g, StartEntry: true, Sink: an.IsReturn, Cut: isWake}
			if _, f := q.Find(); !f {
				wakers[g] = true
				changed = true
			}
		}
	}
	return
}

func c03notify(c *an.Ctx) {
	isWake, wakeSends, _ := readyWakers(c)
	if len(wakeSends) == 0 {
		c.Anchor("a send on nsqd.clientV2.ReadyStateChan")
		return
	}
	// unconditional wakers
	for _, name := range []string{"FinishedMessage", "RequeuedMessage", "TimedOutMessage", "Empty", "Pause", "UnPause"} {
		fn := c.Fn("nsqd", "(*clientV2)."+name)
		if fn == nil {
			continue
		}
		q := &an.PathQ{Fn: fn, StartEntry: true, Sink: an.IsReturn, Cut: isWake}
		w, f := q.Find()
		if f {
			c.Bad(fn, "wakes the pump", fn.Pos(), name+" can return without a wake-up on ReadyStateChan: a pump parked in select with stale readiness keeps (not) delivering until something else wakes it", w)
		} else {
			c.OK(fn, "wakes the pump", fn.Pos(), "")
		}
	}
	// SetReadyCount: wake whenever the count changed (in either direction)
	if fn := c.Fn("nsqd", "(*clientV2).SetReadyCount"); fn != nil {
		var old ssa.Value
		an.Instrs(fn, func(in ssa.Instruction) {
			if call, ok := in.(*ssa.Call); ok && an.StdCallee(call, "sync/atomic", "SwapInt64") {
				old = call
			}
		})
		q := &an.PathQ{Fn: fn, StartEntry: true, Sink: an.IsReturn, Cut: isWake,
			CutEdge: func(e an.Edge, _ *an.PathState) bool {
				for _, cmp := range an.CmpsOnEdge(e) {
					if cmp.Op == token.EQL && old != nil && ((cmp.X == old && isParam(cmp.Y, fn, 1)) || (cmp.Y == old && isParam(cmp.X, fn, 1))) {
						return true
					}
				}
				return false
			}}
		w, f := q.Find()
		if f || old == nil {
			c.Bad(fn, "any RDY change wakes the pump", fn.Pos(), "SetReadyCount can change the count (up or down) without waking the pump: after RDY 0 / a lower RDY / CLS the pump stays parked on live queues and sends a message the consumer no longer allows", w)
		} else {
			c.OK(fn, "any RDY change wakes the pump", fn.Pos(), "")
		}
	}
	// the wake-up never blocks the caller (a FIN handler, the scan worker, an HTTP request): every send on ReadyStateChan
	// is an arm of a select with a default
	rsF := c.P.Field("nsqd", "clientV2", "ReadyStateChan")
	for _, in := range wakeSends {
		sel, ok := in.(*ssa.Select)
		c.Check(ok && !sel.Blocking, in.Parent(), "wake-up is a non-blocking send on ReadyStateChan", in.Pos(), "", "a send on ReadyStateChan that can block: the channel has one slot and the pump may be busy, so the answering goroutine would stall")
	}
	// the pump listens on it
	if pump := c.Fn("nsqd", "(*protocolV2).messagePump"); pump != nil {
		listens := false
		for _, sel := range an.Selects(pump) {
			for _, st := range sel.States {
				if st.Dir == types.RecvOnly && isLoadOfField(st.Chan, rsF) {
					listens = true
				}
			}
		}
		c.Check(listens, pump, "pump selects on ReadyStateChan", pump.Pos(), "", "the consumer pump no longer receives from ReadyStateChan: readiness changes are never noticed while it is parked")
	}
}

// methodExprNames: v is a function value that is, on every path, a method expression of the named interface
// (`Consumer.Pause`); the method names, or nil.
func methodExprNames(v ssa.Value, iface string) []string {
	var out []string
	for _, o := range originsOrNone(v) {
		f, ok := an.Strip(o).(*ssa.Function)
		if !ok || f.Synthetic == "" {
			return nil
		}
		m, ok := f.Object().(*types.Func)
		if !ok || m == nil {
			return nil
		}
		sig, _ := m.Type().(*types.Signature)
		if sig == nil || sig.Recv() == nil {
			return nil
		}
		if nt, ok := sig.Recv().Type().(*types.Named); !ok || nt.Obj().Name() != iface {
			return nil
		}
		out = append(out, m.Name())
	}
	return out
}
