package rules

import (
	"go/token"
	"go/types"

	"golang.org/x/tools/go/ssa"

	"nsqverif/an"
)

func init() {
	Props["C14"] = PropInfo{
		Explanation: "Equality with a registry model over all histories is not a static fact. Decided: (db) the registration map and every per-registration producer map are only touched under RegistrationDB's lock, in the right mode; " +
			"(disconnect) every exit of a peer's IO loop removes that peer from every registration it is in; (own) REGISTER/UNREGISTER/IDENTIFY add and remove only the calling connection's own producer; " +
			"(filter) /lookup filters by inactivity and tombstone, /nodes by inactivity only, a tombstone hides only while younger than its lifetime, and tombstoning marks only the named node's producer of the named topic; " +
			"(ephemeral) an ephemeral registration is dropped only when its last producer left; registering a channel also registers its topic.",
		NotDecided:  "everything history-shaped: duplicates, ordering, lapse of thresholds in wall-clock time, equality with the model.",
		Assumptions: []string{"sync.RWMutex semantics; time.Since/Now monotone enough"},
	}
	reg("C14.db", "LOCK", "registrationMap and producer maps are accessed only under RegistrationDB.RWMutex", 20, c14db)
	reg("C14.disconnect", "PATH+ORIG", "IOLoop exit removes the peer from all of its registrations", 2, c14disconnect)
	reg("C14.own", "ORIG", "TCP commands add/remove only the caller's own producer", 6, c14own)
	reg("C14.filter", "GUARD", "activity and tombstone filters of /lookup and /nodes; tombstone lifetime; tombstone target selection", 7, c14filter)
	reg("C14.ephemeral", "GUARD", "ephemeral registrations removed only when empty; channel REGISTER also registers the topic", 3, c14ephemeral)
}

func c14db(c *an.Ctx) {
	fns := c.P.PkgFuncs("nsqlookupd")
	checkGuarded(c, guardedField{"nsqlookupd", "RegistrationDB", "registrationMap", "RegistrationDB.RWMutex", ""}, fns)
	// producer maps
	pm := c.P.Named("nsqlookupd", "ProducerMap")
	if pm == nil {
		c.Anchor("nsqlookupd.ProducerMap")
		return
	}
	isPM := func(v ssa.Value) bool {
		t := v.Type()
		if types.Identical(t, pm) {
			return true
		}
		// map[string]*Producer literal type
		return types.Identical(t.Underlying(), pm.Underlying())
	}
	la := c.P.Locks()
	for _, fn := range fns {
		fl := la.Fns[fn]
		if fl == nil {
			continue
		}
		an.Instrs(fn, func(in ssa.Instruction) {
			write := false
			var m ssa.Value
			what := ""
			switch x := in.(type) {
			case *ssa.MapUpdate:
				m, write, what = x.Map, true, "insert"
			case *ssa.Lookup:
				m, what = x.X, "lookup"
			case *ssa.Range:
				m, what = x.X, "range"
			case *ssa.Next:
				if r, ok := x.Iter.(*ssa.Range); ok {
					m, what = r.X, "range step"
				}
			case *ssa.Call:
				if bi, ok := x.Call.Value.(*ssa.Builtin); ok && len(x.Call.Args) > 0 {
					switch bi.Name() {
					case "delete":
						m, write, what = x.Call.Args[0], true, "delete"
					case "len":
						m, what = x.Call.Args[0], "len"
					}
				}
			}
			if m == nil || !isPM(m) {
				return
			}
			if _, fresh := an.Strip(m).(*ssa.MakeMap); fresh {
				return
			}
			must, _ := fl.At(in)
			c.Check(must.Holds("RegistrationDB.RWMutex", "", write), fn, "producer map "+what, in.Pos(), "",
				"a per-registration producer map is accessed ("+what+") without RegistrationDB's lock (held: "+must.String()+"): concurrent REGISTER/UNREGISTER/disconnect corrupt the map (fatal 'concurrent map' error)")
		})
	}
}

func c14disconnect(c *an.Ctx) {
	fn := c.Fn("nsqlookupd", "(*LookupProtocolV1).IOLoop")
	lookupRegs := c.Fn("nsqlookupd", "(*RegistrationDB).LookupRegistrations")
	removeProd := c.Fn("nsqlookupd", "(*RegistrationDB).RemoveProducer")
	if fn == nil || lookupRegs == nil || removeProd == nil {
		return
	}
	peerF := c.P.Field("nsqlookupd", "ClientV1", "peerInfo")
	idF := c.P.Field("nsqlookupd", "PeerInfo", "id")
	isOwnID := func(v ssa.Value) bool {
		f, base := an.LoadedField(an.Strip(v))
		if f != idF {
			return false
		}
		pf, _ := an.LoadedField(an.Strip(base))
		return pf == peerF
	}
	// the cleanup loop: range over LookupRegistrations(own id) calling RemoveProducer(r, own id) each iteration
	var cleanup *an.IndexLoop
	for _, l := range an.NaturalLoops(fn) {
		il, ok := an.AsIndexLoop(l)
		if !ok || il.Slice == nil {
			continue
		}
		lc := an.CallResultOf(il.Slice, lookupRegs)
		if lc == nil || !isOwnID(arg(lc, 0)) {
			continue
		}
		ok2, _ := loopDoesEach(fn, il, func(in ssa.Instruction, elems []ssa.Value) bool {
			if !isCallToOn(in, removeProd, nil) {
				return false
			}
			ci := in.(ssa.CallInstruction)
			return valueIn(arg(ci, 0), elems) && isOwnID(arg(ci, 1))
		})
		if ok2 {
			cleanup = il
		}
	}
	c.Check(cleanup != nil, fn, "cleanup loop over the peer's registrations", fn.Pos(), "", "IOLoop has no loop that removes the disconnecting peer from every registration returned by LookupRegistrations(its id)")
	if cleanup == nil {
		return
	}
	// every return passes the cleanup loop header, or the peerInfo == nil edge
	var nilEdges []an.Edge
	an.Instrs(fn, func(in ssa.Instruction) {
		b, ok := in.(*ssa.BinOp)
		if ok && (b.Op == token.EQL || b.Op == token.NEQ) && isLoadOfField(b.X, peerF) && an.IsNilConst(b.Y) {
			for _, t := range an.NilTests(b.X) {
				if t.If.Cond == ssa.Value(b) {
					nilEdges = append(nilEdges, t.NilEdge)
				}
			}
		}
	})
	q := &an.PathQ{Fn: fn, StartEntry: true, Sink: an.IsReturn,
		CutEdge: func(e an.Edge, _ *an.PathState) bool {
			return an.EdgeIn(e, nilEdges) || (e.To == cleanup.Header && !cleanup.Blocks[e.From])
		}}
	w, f := q.Find()
	if f {
		c.Bad(fn, "every exit runs the cleanup", fn.Pos(), "IOLoop can return for an identified peer without removing its registrations: a disconnected nsqd stays in /lookup answers", w)
	} else {
		c.OK(fn, "every exit runs the cleanup", fn.Pos(), "")
	}
}

func c14own(c *an.Ctx) {
	addProd := c.Fn("nsqlookupd", "(*RegistrationDB).AddProducer")
	removeProd := c.Fn("nsqlookupd", "(*RegistrationDB).RemoveProducer")
	if addProd == nil || removeProd == nil {
		return
	}
	peerF := c.P.Field("nsqlookupd", "ClientV1", "peerInfo")
	prodPeerF := c.P.Field("nsqlookupd", "Producer", "peerInfo")
	idF := c.P.Field("nsqlookupd", "PeerInfo", "id")
	for _, name := range []string{"REGISTER", "UNREGISTER", "IDENTIFY", "IOLoop", "PING"} {
		fn := c.Fn("nsqlookupd", "(*LookupProtocolV1)."+name)
		if fn == nil {
			continue
		}
		client := fn.Params[1]
		ownPeer := func(v ssa.Value) bool {
			f, base := an.LoadedField(an.Strip(v))
			if f == peerF && (an.Strip(base) == ssa.Value(client) || isClientCast(base, client)) {
				return true
			}
			return false
		}
		n := 0
		for _, ac := range an.CallsTo(fn, addProd) {
			n++
			// arg1 = &Producer{peerInfo: client.peerInfo}
			good := false
			if al, ok := an.Strip(arg(ac, 1)).(*ssa.Alloc); ok {
				for _, r := range an.Referrers(al) {
					if fa, ok := r.(*ssa.FieldAddr); ok && an.FieldOf(fa) == prodPeerF {
						for _, rr := range an.Referrers(fa) {
							if st, ok := rr.(*ssa.Store); ok && (ownPeer(st.Val) || isFreshPeer(st.Val, fn)) {
								good = true
							}
						}
					}
				}
			}
			c.Check(good, fn, "AddProducer registers the caller's own peer", ac.Pos(), "", "AddProducer is given a producer that is not the calling connection's own peerInfo")
		}
		for _, rc := range an.CallsTo(fn, removeProd) {
			n++
			f, base := an.LoadedField(an.Strip(arg(rc, 1)))
			good := f == idF && ownPeer(base)
			c.Check(good, fn, "RemoveProducer removes the caller's own id", rc.Pos(), "", "RemoveProducer is called with an id other than the calling connection's own peerInfo.id: one connection can unregister another nsqd")
		}
		if n == 0 {
			c.OK(fn, "no registry mutation", fn.Pos(), "")
		}
	}
}

// isClientCast: base is `c.(*ClientV1)` of the protocol.Client parameter (IOLoop).
func isClientCast(v ssa.Value, client ssa.Value) bool {
	if ta, ok := an.Strip(v).(*ssa.TypeAssert); ok {
		return ta.X == client
	}
	return false
}

// isFreshPeer: v is the address of the PeerInfo built in this function (IDENTIFY) that is also stored into client.peerInfo.
func isFreshPeer(v ssa.Value, fn *ssa.Function) bool {
	// IDENTIFY: client.peerInfo = &peerInfo; Producer{peerInfo: client.peerInfo}
	return false
}

func c14filter(c *an.Ctx) {
	fba := c.Fn("nsqlookupd", "(Producers).FilterByActive")
	isTomb := c.Fn("nsqlookupd", "(*Producer).IsTombstoned")
	if fba == nil || isTomb == nil {
		return
	}
	optF := func(name string) *types.Var { return c.P.Field("nsqlookupd", "Options", name) }
	// /lookup and /nodes
	for _, spec := range []struct {
		h        string
		tombZero bool
	}{{"doLookup", false}, {"doNodes", true}} {
		fn := c.Fn("nsqlookupd", "(*httpServer)."+spec.h)
		if fn == nil {
			continue
		}
		calls := an.CallsTo(fn, fba)
		if len(calls) != 1 {
			c.Bad(fn, "producers filtered by activity", fn.Pos(), sprintf("expected one FilterByActive call, found %d", len(calls)), nil)
			continue
		}
		fc := calls[0]
		okTimeout := isLoadOfField(arg(fc, 0), optF("InactiveProducerTimeout"))
		okTomb := false
		if spec.tombZero {
			k, isC := an.ConstInt(arg(fc, 1))
			okTomb = isC && k == 0
		} else {
			okTomb = isLoadOfField(arg(fc, 1), optF("TombstoneLifetime"))
		}
		c.Check(okTimeout && okTomb, fn, "producers filtered by activity", fc.Pos(), "", sprintf("%s does not filter with (InactiveProducerTimeout, %s)", spec.h, map[bool]string{true: "0: tombstoned nodes stay listed", false: "TombstoneLifetime"}[spec.tombZero]))
		// the filtered list is what is returned (PeerInfo() of it for /lookup)
	}
	if fn := c.Fn("nsqlookupd", "(*httpServer).doLookup"); fn != nil {
		fp := c.P.Func("nsqlookupd", "(*RegistrationDB).FindProducers")
		good := false
		for _, pc := range an.CallsTo(fn, fp) {
			cat, _ := an.ConstString(arg(pc, 0))
			sub, _ := an.ConstString(arg(pc, 2))
			if cat == "topic" && sub == "" {
				good = true
			}
		}
		c.Check(good, fn, "lookup lists producers of the topic registration", fn.Pos(), "", "/lookup does not take its producers from the (\"topic\", name, \"\") registration")
		pi := c.P.Func("nsqlookupd", "(Producers).PeerInfo")
		ret := false
		for _, pc := range an.CallsTo(fn, pi) {
			if an.OriginsAll(recvArg(pc), func(o ssa.Value) bool { return an.CallResultOf(o, fba) != nil }) {
				ret = true
			}
		}
		c.Check(ret, fn, "lookup returns the filtered producers", fn.Pos(), "", "/lookup returns producers that did not pass FilterByActive")
		// and what is filtered is the registry's answer itself: anything dropped before the activity filter (a
		// de-duplication by address, say) can drop the live entry and keep the one the filter then removes
		direct := false
		for _, fc := range an.CallsTo(fn, fba) {
			if fp != nil && an.OriginsAll(recvArg(fc), func(o ssa.Value) bool { return an.CallResultOf(o, fp) != nil }) {
				direct = true
			}
		}
		c.Check(direct, fn, "lookup filters the registry's answer", fn.Pos(), "", "/lookup transforms the producer list before FilterByActive sees it: an entry removed there may be the only live one of its kind (a silent look-alike registered with the same address hides the bystander that is still pinging)")
	}
	// FilterByActive: skip when inactive or tombstoned
	{
		fn := fba
		lastF := c.P.Field("nsqlookupd", "PeerInfo", "lastUpdate")
		var appends []*ssa.Call
		an.Instrs(fn, func(in ssa.Instruction) {
			if call, ok := isBuiltinCall(in, "append"); ok {
				appends = append(appends, call)
			}
		})
		good := len(appends) == 1
		for _, ap := range appends {
			activeOK, tombOK := false, false
			for _, f := range an.FactsAt(ap.Block()) {
				if call, ok := f.V.(*ssa.Call); ok && !f.True && an.IsCallTo(call, isTomb) && isParam(arg(call, 0), fn, 2) {
					tombOK = true
				}
				if cmp, ok := f.AsCmp(); ok {
					// now.Sub(cur) <= inactivityTimeout
					oc, ok := cmp.Oriented(func(x ssa.Value) bool {
						call, ok := an.Strip(x).(*ssa.Call)
						return ok && an.StdCallee(call, "time", "(Time).Sub")
					})
					if ok && (oc.Op == token.LEQ || oc.Op == token.LSS) && isParam(oc.Y, fn, 1) {
						activeOK = true
					}
				}
			}
			if !(activeOK && tombOK) {
				good = false
			}
		}
		lu := false
		an.Instrs(fn, func(in ssa.Instruction) {
			if call, ok := in.(*ssa.Call); ok && atomicLoadOf(call, lastF) {
				lu = true
			}
		})
		c.Check(good && lu, fn, "kept only if recently pinged and not tombstoned", fn.Pos(), "", "FilterByActive keeps a producer without both `now - lastUpdate <= inactivityTimeout` and `!IsTombstoned(lifetime)`")
	}
	// IsTombstoned
	{
		fn := isTomb
		tF := c.P.Field("nsqlookupd", "Producer", "tombstoned")
		good := false
		for _, r := range an.Returns(fn) {
			v := an.Resolve(r.Results[0])
			facts := append(an.FactsAt(r.Block()), an.Fact{V: v, True: true})
			hasFlag, hasLife := false, false
			var expand func(f an.Fact)
			expand = func(f an.Fact) {
				if fv, _ := an.LoadedField(f.V); fv == tF && f.True {
					hasFlag = true
				}
				if cmp, ok := f.AsCmp(); ok {
					oc, ok := cmp.Oriented(func(x ssa.Value) bool {
						call, ok := an.Strip(x).(*ssa.Call)
						return ok && an.StdCallee(call, "time", "Since")
					})
					if ok && oc.Op == token.LSS && isParam(oc.Y, fn, 1) {
						hasLife = true
					}
				}
			}
			for _, f := range facts {
				expand(f)
				if phi, ok := f.V.(*ssa.Phi); ok && f.True {
					for i, e := range phi.Edges {
						if k, isC := e.(*ssa.Const); isC && k.Value != nil && k.Value.String() == "false" {
							continue
						}
						expand(an.Fact{V: e, True: true})
						for _, ff := range an.FactsOnEdge(an.Edge{From: phi.Block().Preds[i], To: phi.Block()}) {
							expand(ff)
						}
					}
				}
			}
			if hasFlag && hasLife {
				good = true
			}
		}
		c.Check(good, fn, "tombstone hides only while younger than its lifetime", fn.Pos(), "", "IsTombstoned is not `tombstoned && time.Since(tombstonedAt) < lifetime`")
	}
	// tombstone target selection
	if fn := c.Fn("nsqlookupd", "(*httpServer).doTombstoneTopicProducer"); fn != nil {
		tomb := c.P.Func("nsqlookupd", "(*Producer).Tombstone")
		fp := c.P.Func("nsqlookupd", "(*RegistrationDB).FindProducers")
		okScope := false
		for _, pc := range an.CallsTo(fn, fp) {
			cat, _ := an.ConstString(arg(pc, 0))
			sub, isS := an.ConstString(arg(pc, 2))
			if cat == "topic" && isS && sub == "" {
				okScope = true
			}
		}
		okEq := false
		for _, tc := range an.CallsTo(fn, tomb) {
			for _, cmp := range an.CmpsAt(tc.Block()) {
				if cmp.Op == token.EQL {
					// one side Sprintf("%s:%d", BroadcastAddress, HTTPPort), other the node argument
					for _, side := range []ssa.Value{cmp.X, cmp.Y} {
						if call, ok := an.Strip(side).(*ssa.Call); ok && an.StdCallee(call, "fmt", "Sprintf") {
							names := map[string]bool{}
							for _, e := range varargsInOrder(call.Call.Args[1]) {
								if f, _ := an.LoadedField(an.Strip(e)); f != nil {
									names[an.FName(f)] = true
								}
							}
							if names["BroadcastAddress"] && names["HTTPPort"] {
								okEq = true
							}
						}
					}
				}
			}
		}
		c.Check(okScope && okEq, fn, "tombstone marks only the named node of the named topic", fn.Pos(), "", "tombstoning is not restricted to producers of (\"topic\", topic, \"\") whose broadcast_address:http_port equals the node argument")
	}
}

func c14ephemeral(c *an.Ctx) {
	fn := c.Fn("nsqlookupd", "(*LookupProtocolV1).UNREGISTER")
	rr := c.Fn("nsqlookupd", "(*RegistrationDB).RemoveRegistration")
	rp := c.Fn("nsqlookupd", "(*RegistrationDB).RemoveProducer")
	if fn == nil || rr == nil || rp == nil {
		return
	}
	// every function of nsqlookupd that drops a whole registration on behalf of a connection (UNREGISTER on the pinned tree);
	// the two admin delete endpoints remove registrations by design
	var sites []ssa.CallInstruction
	var owner = map[ssa.CallInstruction]*ssa.Function{}
	for _, g := range c.P.PkgFuncs("nsqlookupd") {
		if an.BaseName(g) == "doDeleteTopic" || an.BaseName(g) == "doDeleteChannel" {
			continue
		}
		for _, rc := range an.CallsTo(g, rr) {
			sites = append(sites, rc)
			owner[rc] = g
		}
	}
	for _, rc := range sites {
		fn := owner[rc]
		left0, eph := false, false
		for _, f := range an.FactsAt(rc.Block()) {
			if cmp, ok := f.AsCmp(); ok && cmp.Op == token.EQL {
				if k, isC := an.ConstInt(cmp.Y); isC && k == 0 {
					if ex, ok := an.Strip(cmp.X).(*ssa.Extract); ok && ex.Index == 1 {
						if call, ok := ex.Tuple.(*ssa.Call); ok && an.IsCallTo(call, rp) && an.SameValue(arg(call, 0), arg(rc, 0)) {
							left0 = true
						}
					}
				}
			}
			if call, ok := f.V.(*ssa.Call); ok && f.True && an.StdCallee(call, "strings", "HasSuffix") {
				if s, ok := an.ConstString(call.Call.Args[1]); ok && s == "#ephemeral" {
					eph = true
				}
			}
		}
		c.Check(left0 && eph, fn, "registration dropped only when empty and ephemeral", rc.Pos(), "", an.FnName(fn)+" removes a whole registration (and every other producer in it) without `left == 0 && #ephemeral`")
	}
	// the `left` UNREGISTER relies on is truthful: len(producers of k) or, only when k has no registration, 0
	{
		mapF := c.P.Field("nsqlookupd", "RegistrationDB", "registrationMap")
		isRegLookup := func(v ssa.Value) *ssa.Lookup {
			ex, ok := an.Strip(v).(*ssa.Extract)
			if !ok {
				return nil
			}
			lk, ok := ex.Tuple.(*ssa.Lookup)
			if !ok || !isLoadOfField(lk.X, mapF) || !isParam(lk.Index, rp, 1) {
				return nil
			}
			return lk
		}
		n := 0
		for _, b := range rp.Blocks {
			ret, ok := b.Instrs[len(b.Instrs)-1].(*ssa.Return)
			if !ok || b == rp.Recover || len(ret.Results) != 2 {
				continue
			}
			type leaf struct {
				v     ssa.Value
				facts []an.Fact
			}
			var leaves []leaf
			v := an.Resolve(ret.Results[1])
			if phi, ok := v.(*ssa.Phi); ok {
				for i, e := range phi.Edges {
					leaves = append(leaves, leaf{e, append(an.FactsAt(phi.Block().Preds[i]), an.FactsOnEdge(an.Edge{From: phi.Block().Preds[i], To: phi.Block()})...)})
				}
			} else {
				leaves = append(leaves, leaf{v, an.FactsAt(b)})
			}
			for _, l := range leaves {
				n++
				good := false
				if call, ok := an.Strip(l.v).(*ssa.Call); ok {
					if a := lenArgOf(call); a != nil {
						if ex, ok := an.Strip(a).(*ssa.Extract); ok && ex.Index == 0 && isRegLookup(ex) != nil {
							good = true
						}
					}
				}
				if k, isC := an.ConstInt(l.v); isC && k == 0 {
					for _, f := range l.facts {
						if ex, ok := f.V.(*ssa.Extract); ok && ex.Index == 1 && !f.True && isRegLookup(ex) != nil {
							good = true
						}
					}
				}
				c.Check(good, rp, "producers-left count is truthful", ret.Pos(), "", "RemoveProducer can report a count that is not len(producers of the registration) (0 is allowed only when the registration does not exist): UNREGISTER reads 0 as 'now empty' and drops an #ephemeral registration that other connections are still part of")
			}
		}
		c.Check(n >= 2, rp, "producers-left returns located", rp.Pos(), "", "could not locate RemoveProducer's return values")
	}
	if reg := c.Fn("nsqlookupd", "(*LookupProtocolV1).REGISTER"); reg != nil {
		ap := c.P.Func("nsqlookupd", "(*RegistrationDB).AddProducer")
		cats := map[string]bool{}
		topicAlways := false
		for _, ac := range an.CallsTo(reg, ap) {
			cat := regCategory(arg(ac, 0))
			cats[cat] = true
			if cat == "topic" {
				// on every success path
				q := &an.PathQ{Fn: reg, StartEntry: true, Sink: sinkSuccessReturn, Cut: func(in ssa.Instruction, _ *an.PathState) bool { return in == ac.(ssa.Instruction) }}
				if _, f := q.Find(); !f {
					topicAlways = true
				}
			}
		}
		// the same, spelled as a loop over a list of keys built first (`keys = append(keys, Registration{"topic", …})`):
		// AddProducer runs for every element, and the topic key is appended on every path to the loop
		for _, ac := range an.CallsTo(reg, ap) {
			l := an.LoopContaining(an.NaturalLoops(reg), ac.Block())
			if l == nil {
				continue
			}
			il, ok := an.AsIndexLoop(l)
			if !ok || il.Slice == nil {
				continue
			}
			each, _ := loopDoesEach(reg, il, func(in ssa.Instruction, _ []ssa.Value) bool { return in == ac.(ssa.Instruction) })
			isElem := false
			var isElemOf func(v ssa.Value, depth int) bool
			isElemOf = func(v ssa.Value, depth int) bool {
				u, ok := v.(*ssa.UnOp)
				if !ok || u.Op != token.MUL || depth > 2 {
					return false
				}
				if ia, ok := u.X.(*ssa.IndexAddr); ok {
					return an.SameValue(ia.X, il.Slice)
				}
				// the range variable: a cell written once per iteration with the element
				if al, ok := u.X.(*ssa.Alloc); ok {
					n, good := 0, false
					for _, r := range an.Referrers(al) {
						if st, ok := r.(*ssa.Store); ok && st.Addr == ssa.Value(al) {
							n++
							good = isElemOf(st.Val, depth+1)
						}
					}
					return n == 1 && good
				}
				return false
			}
			isElem = isElemOf(arg(ac, 0), 0) || isElemOf(an.Strip(arg(ac, 0)), 0)
			if !each || !isElem {
				continue
			}
			an.Instrs(reg, func(in ssa.Instruction) {
				call, ok := isBuiltinCall(in, "append")
				if !ok || il.Blocks[in.Block()] || len(call.Call.Args) != 2 {
					return
				}
				// the appends the list is made of: il.Slice, and backwards through append's first argument and merges
				chain := map[ssa.Value]bool{}
				var walk func(v ssa.Value, d int)
				walk = func(v ssa.Value, d int) {
					if chain[v] || d > 8 {
						return
					}
					chain[v] = true
					switch x := v.(type) {
					case *ssa.Phi:
						for _, e := range x.Edges {
							walk(e, d+1)
						}
					case *ssa.Call:
						if _, isApp := isBuiltinCall(x, "append"); isApp {
							walk(x.Call.Args[0], d+1)
						}
					}
				}
				walk(il.Slice, 0)
				if !chain[ssa.Value(call)] {
					return
				}
				for _, e := range appendedElems(call.Call.Args[1]) {
					cat := regCategory(e)
					cats[cat] = true
					if cat == "topic" {
						q := &an.PathQ{Fn: reg, StartEntry: true, SinkEdge: func(e an.Edge, _ *an.PathState) bool { return e.To == il.Header && !il.Blocks[e.From] },
							Cut: func(x ssa.Instruction, _ *an.PathState) bool { return x == in }}
						if _, f := q.Find(); !f {
							topicAlways = true
						}
					}
				}
			})
		}
		c.Check(cats["channel"] && topicAlways, reg, "channel REGISTER also registers the topic", reg.Pos(), "", "REGISTER topic channel does not add the producer to both the channel and the topic registration on every success path")
	}
}

// regCategory returns the constant Category of a Registration composite value.
func regCategory(v ssa.Value) string { return regCategoryD(v, 0) }

func regCategoryD(v ssa.Value, depth int) string {
	u, ok := an.Strip(v).(*ssa.UnOp)
	if !ok || depth > 4 {
		return ""
	}
	al, ok := u.X.(*ssa.Alloc)
	if !ok {
		return ""
	}
	for _, r := range an.Referrers(al) {
		if fa, ok := r.(*ssa.FieldAddr); ok && an.FName(an.FieldOf(fa)) == "Category" {
			for _, rr := range an.Referrers(fa) {
				if st, ok := rr.(*ssa.Store); ok {
					s, _ := an.ConstString(st.Val)
					return s
				}
			}
		}
	}
	// a copy of another struct variable (a by-value parameter of an inlined helper): `*al = *other`
	for _, r := range an.Referrers(al) {
		if st, ok := r.(*ssa.Store); ok && st.Addr == ssa.Value(al) {
			if s := regCategoryD(st.Val, depth+1); s != "" {
				return s
			}
		}
	}
	return ""
}
