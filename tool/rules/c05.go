package rules

import (
	"go/token"
	"go/types"

	"golang.org/x/tools/go/ssa"

	"nsqverif/an"
)

func init() {
	Props["C05"] = PropInfo{
		Explanation: "Decides the shutdown/restart skeleton: (exit) NSQD.Exit closes listeners, persists metadata, Close()s every topic, then stops the subsystems and releases the directory lock, in that order; " +
			"(close) the non-deleting exit paths of Topic and Channel stop the pump / disconnect consumers, flush and close the backend and can never reach Empty or a backend Delete; " +
			"(flush) every container of Channel/Topic that can hold a message is written to the backend by flush; (meta) what GetMetadata writes is what LoadMetadata reads, pause flags come from the object itself and are re-applied before the pump is started; " +
			"(start) the topic pump reads no queue before Start().",
		NotDecided:  "byte-identity of what go-diskqueue reads back; that consumers actually receive the messages after restart; the custody windows racing shutdown (REQ/TOUCH/pump/publish vs exit) — see DESIGN.md F10.",
		Assumptions: []string{"go-diskqueue Close() persists its own metadata and Put()s that returned nil"},
	}
	reg("C05.exit", "PATH", "NSQD.Exit: listeners closed -> PersistMetadata -> every topic Close() -> close(exitChan) -> waitGroup.Wait -> dirlock released", 2, c05exit)
	reg("C05.close", "PATH", "Topic/Channel exit(deleted=false): stop pump/consumers -> flush -> backend.Close; Empty/Delete unreachable", 6, c05close)
	reg("C05.flush", "SHAPE", "flush writes every message-holding container of Channel and Topic to the backend", 6, c05flush)
	reg("C05.meta", "SHAPE+PATH", "metadata written by GetMetadata is read back by LoadMetadata; channels and pause flags restored before topic.Start()", 7, c05meta)
	reg("C05.start", "PATH", "topic pump receives from no queue before the start signal", 1, c05start)
}

func c05exit(c *an.Ctx) {
	fn := c.Fn("nsqd", "(*NSQD).Exit")
	persist := c.Fn("nsqd", "(*NSQD).PersistMetadata")
	tClose := c.Fn("nsqd", "(*Topic).Close")
	if fn == nil || persist == nil || tClose == nil {
		return
	}
	topicMapF := c.P.Field("nsqd", "NSQD", "topicMap")
	exitChF := c.P.Field("nsqd", "NSQD", "exitChan")
	var closeLoop *an.IndexLoop
	for _, il := range mapRangeLoops(fn, topicMapF) {
		ok, _ := loopDoesEach(fn, il, func(in ssa.Instruction, elems []ssa.Value) bool {
			return isCallToOn(in, tClose, func(v ssa.Value) bool { return valueIn(v, elems) })
		})
		if ok {
			closeLoop = il
		}
	}
	c.Check(closeLoop != nil, fn, "closes every topic", fn.Pos(), "", "Exit has no loop over topicMap that calls Close() on every topic (a skipped topic keeps its memory queue, in-flight and deferred messages off disk)")
	var start []an.Edge
	an.Instrs(fn, func(in ssa.Instruction) {
		if call, ok := in.(*ssa.Call); ok && an.StdCallee(call, "sync/atomic", "CompareAndSwapInt32") {
			for _, t := range an.BoolTests(call) {
				start = append(start, t.True)
			}
		}
	})
	isListenerClose := func(in ssa.Instruction) bool {
		return isInvokeOn(in, "Listener", "Close", nil)
	}
	steps := []step{
		{"listener Close", isListenerClose},
		{"n.Lock", func(in ssa.Instruction) bool { return isStdCall(in, "sync", "(*RWMutex).Lock") }},
		{"PersistMetadata", func(in ssa.Instruction) bool { return isCallToOn(in, persist, nil) }},
	}
	if closeLoop != nil {
		steps = append(steps, step{"close every topic", func(in ssa.Instruction) bool { return in == ssa.Instruction(closeLoop.Iter) }})
	}
	steps = append(steps,
		step{"close(exitChan)", func(in ssa.Instruction) bool {
			call, ok := isBuiltinCall(in, "close")
			return ok && isLoadOfField(call.Call.Args[0], exitChF)
		}},
		step{"waitGroup.Wait", func(in ssa.Instruction) bool { return isStdCall(in, "sync", "(*WaitGroup).Wait") }},
		step{"dirlock Unlock", func(in ssa.Instruction) bool {
			ci, ok := in.(ssa.CallInstruction)
			if !ok {
				return false
			}
			f := an.StaticCallee(ci)
			return f != nil && an.BaseName(f) == "Unlock" && f.Pkg != nil && f.Pkg.Pkg.Path() == an.ModPath+"/internal/dirlock"
		}})
	// listener close is conditional on non-nil listeners: the first step is checked from the tcpListener test only loosely
	ok, missing, w := seqFromEdges(fn, start, nil, an.IsReturn, steps[1:])
	if ok {
		c.OK(fn, "shutdown sequence", fn.Pos(), "lock -> persist -> close topics -> stop subsystems -> wait -> unlock data dir")
	} else {
		c.Bad(fn, "shutdown sequence", fn.Pos(), "after winning the exit CAS a return is reachable without: "+missing, w)
	}
	// the tcp listener is closed (when non-nil) before metadata is persisted
	tcpLF := c.P.Field("nsqd", "NSQD", "tcpListener")
	q := &an.PathQ{Fn: fn, StartEdges: start,
		Sink: func(in ssa.Instruction, _ *an.PathState) bool { return isCallToOn(in, persist, nil) },
		Cut: func(in ssa.Instruction, _ *an.PathState) bool {
			return isInvokeOn(in, "Listener", "Close", func(v ssa.Value) bool { return isLoadOfField(v, tcpLF) })
		},
		CutEdge: func(e an.Edge, _ *an.PathState) bool {
			// the edge where tcpListener == nil
			for _, cmp := range an.CmpsOnEdge(e) {
				if cmp.Op.String() == "==" && (isLoadOfField(cmp.X, tcpLF) && an.IsNilConst(cmp.Y)) {
					return true
				}
			}
			return false
		}}
	w, f := q.Find()
	c.Check(!f, fn, "stops accepting before persisting", fn.Pos(), "", "PersistMetadata/topic close is reachable while the TCP listener still accepts publishers")
	_ = w
}

func c05close(c *an.Ctx) {
	for _, spec := range []struct{ typ string }{{"Topic"}, {"Channel"}} {
		fn := c.Fn("nsqd", "(*"+spec.typ+").exit")
		if fn == nil {
			continue
		}
		flush := c.Fn("nsqd", "(*"+spec.typ+").flush")
		empty := c.Fn("nsqd", "(*"+spec.typ+").Empty")
		closeW := c.Fn("nsqd", "(*"+spec.typ+").Close")
		if flush == nil || empty == nil || closeW == nil {
			continue
		}
		backendF := c.P.Field("nsqd", spec.typ, "backend")
		isRecv := func(v ssa.Value) bool { return isParam(v, fn, 0) }
		consts := paramConst(fn, 1, false)
		// Close() forwards exit(false)
		good := false
		for _, ci := range an.CallsTo(closeW, fn) {
			if k, ok := an.Strip(arg(ci, 0)).(*ssa.Const); ok && k.Value != nil && k.Value.String() == "false" {
				good = true
			}
		}
		c.Check(good, closeW, "Close forwards to exit(false)", closeW.Pos(), "", "Close() does not forward to exit(deleted=false): a graceful shutdown would delete data")
		var steps []step
		if spec.typ == "Topic" {
			chClose := c.Fn("nsqd", "(*Channel).Close")
			chanMapF := c.P.Field("nsqd", "Topic", "channelMap")
			var loop *an.IndexLoop
			for _, il := range mapRangeLoops(fn, chanMapF) {
				ok, _ := loopDoesEach(fn, il, func(in ssa.Instruction, elems []ssa.Value) bool {
					return chClose != nil && isCallToOn(in, chClose, func(v ssa.Value) bool { return valueIn(v, elems) })
				})
				if ok {
					loop = il
				}
			}
			c.Check(loop != nil, fn, "closes every channel", fn.Pos(), "", "Topic.exit(false) does not Close() every channel (an error on one channel must not stop the loop)")
			steps = []step{
				{"close(exitChan)", func(in ssa.Instruction) bool { _, ok := isBuiltinCall(in, "close"); return ok }},
				{"waitGroup.Wait (pump stopped)", func(in ssa.Instruction) bool { return isStdCall(in, "sync", "(*WaitGroup).Wait") }},
			}
			if loop != nil {
				steps = append(steps, step{"close every channel", func(in ssa.Instruction) bool { return in == ssa.Instruction(loop.Iter) }})
			}
		} else {
			clientsF := c.P.Field("nsqd", "Channel", "clients")
			var loop *an.IndexLoop
			for _, il := range mapRangeLoops(fn, clientsF) {
				ok, _ := loopDoesEach(fn, il, func(in ssa.Instruction, elems []ssa.Value) bool {
					return isInvokeOn(in, "Consumer", "Close", func(v ssa.Value) bool { return valueIn(v, elems) })
				})
				if ok {
					loop = il
				}
			}
			steps = []step{{"exitMutex.Lock", func(in ssa.Instruction) bool { return isStdCall(in, "sync", "(*RWMutex).Lock") }}}
			if loop != nil {
				steps = append(steps, step{"disconnect every consumer", func(in ssa.Instruction) bool { return in == ssa.Instruction(loop.Iter) }})
			} else {
				c.Bad(fn, "disconnects every consumer", fn.Pos(), "Channel.exit does not Close() every consumer", nil)
			}
		}
		steps = append(steps,
			step{"flush", func(in ssa.Instruction) bool { return isCallToOn(in, flush, isRecv) }},
			step{"backend.Close", func(in ssa.Instruction) bool {
				return isInvokeOn(in, "BackendQueue", "Close", func(v ssa.Value) bool { return isLoadOfField(v, backendF) })
			}})
		ok, missing, w := seqOnAllPaths(fn, consts, sinkSuccessReturn, steps)
		if ok {
			c.OK(fn, "close sequence", fn.Pos(), "")
		} else {
			c.Bad(fn, "close sequence", fn.Pos(), "on the deleted=false path a return is reachable without: "+missing+" (messages still in memory at that point are lost on restart)", w)
		}
		// destructive calls unreachable on this family
		w, found := reachableUnder(fn, consts, func(in ssa.Instruction) bool {
			if isCallToOn(in, empty, nil) {
				return true
			}
			if isInvokeOn(in, "BackendQueue", "Delete", nil) || isInvokeOn(in, "BackendQueue", "Empty", nil) {
				return true
			}
			if t := c.P.Func("nsqd", "(*Channel).Delete"); t != nil && isCallToOn(in, t, nil) {
				return true
			}
			return false
		})
		if found {
			c.Bad(fn, "close path is not destructive", fn.Pos(), "Empty()/Delete() is reachable on the deleted=false (graceful close) path: a restart loses queued messages", w)
		} else {
			c.OK(fn, "close path is not destructive", fn.Pos(), "")
		}
	}
}

func c05flush(c *an.Ctx) {
	wmb := backendWriterFn(c)
	msgT := c.P.Named("nsqd", "Message")
	itemT := c.P.Named("internal/pqueue", "Item")
	if wmb == nil || msgT == nil {
		return
	}
	holdsMsg := func(t types.Type) string {
		switch u := t.Underlying().(type) {
		case *types.Chan:
			if pt, ok := u.Elem().(*types.Pointer); ok && types.Identical(pt.Elem(), msgT) {
				return "chan"
			}
		case *types.Map:
			if pt, ok := u.Elem().(*types.Pointer); ok {
				if types.Identical(pt.Elem(), msgT) {
					return "map"
				}
				if itemT != nil && types.Identical(pt.Elem(), itemT) {
					return "itemmap"
				}
			}
		}
		return ""
	}
	for _, typ := range []string{"Channel", "Topic"} {
		fn := c.Fn("nsqd", "(*"+typ+").flush")
		nt := c.P.Named("nsqd", typ)
		if fn == nil || nt == nil {
			continue
		}
		backendF := c.P.Field("nsqd", typ, "backend")
		st := nt.Underlying().(*types.Struct)
		loops := an.NaturalLoops(fn)
		for i := 0; i < st.NumFields(); i++ {
			f := st.Field(i)
			kind := holdsMsg(f.Type())
			if kind == "" {
				continue
			}
			good := false
			why := "no drain of this container in flush"
			if kind == "chan" {
				// a receive state on this field inside a loop whose default leaves; received value goes to writeMessageToBackend
				for _, sel := range an.Selects(fn) {
					if sel.Blocking {
						continue
					}
					for _, ss := range an.SelectStates(sel) {
						if ss.State.Dir != types.RecvOnly || !isLoadOfField(ss.State.Chan, f) || ss.Recv == nil {
							continue
						}
						l := an.LoopContaining(loops, sel.Block())
						if l == nil {
							why = "the receive is not in a loop (only one message is flushed)"
							continue
						}
						q := &an.PathQ{Fn: fn, StartEdges: ss.Chosen, Tracked: []ssa.Value{ss.Recv}, Sink: an.IsReturn,
							SinkEdge: func(e an.Edge, _ *an.PathState) bool { return e.To == l.Header || !l.Blocks[e.To] },
							Cut: func(in ssa.Instruction, ps *an.PathState) bool {
								ci, ok := in.(ssa.CallInstruction)
								return ok && an.IsCallTo(ci, wmb) && ps.Has(arg(ci, 0)) && isLoadOfField(arg(ci, 1), backendF)
							}}
						if _, found := q.Find(); found {
							why = "a received message can be dropped without writeMessageToBackend"
						} else {
							good = true
						}
					}
				}
			} else {
				for _, il := range mapRangeLoops(fn, f) {
					ok, w := loopDoesEach(fn, il, func(in ssa.Instruction, elems []ssa.Value) bool {
						ci, ok := in.(ssa.CallInstruction)
						if !ok || !an.IsCallTo(ci, wmb) || !isLoadOfField(arg(ci, 1), backendF) {
							return false
						}
						m := an.Strip(arg(ci, 0))
						if valueIn(m, elems) {
							return true
						}
						// item.Value.(*Message)
						if ta, ok := m.(*ssa.TypeAssert); ok {
							if fv, base := an.LoadedField(ta.X); fv != nil && fv.Name() == "Value" && valueIn(base, elems) {
								return true
							}
						}
						return false
					})
					if ok {
						good = true
					} else {
						why = w
					}
				}
			}
			c.Check(good, fn, "flushes "+typ+"."+f.Name(), fn.Pos(), "", typ+".flush does not write every message of "+typ+"."+f.Name()+" to the backend ("+why+"): those messages are lost by a graceful restart")
			// the drain is reached on every path through flush (an early return may skip it only when this container is empty)
			fld := f
			isDrain := func(in ssa.Instruction, _ *an.PathState) bool {
				switch x := in.(type) {
				case *ssa.Range:
					return isLoadOfField(x.X, fld)
				case *ssa.Select:
					for _, stt := range x.States {
						if stt.Dir == types.RecvOnly && isLoadOfField(stt.Chan, fld) {
							return true
						}
					}
				}
				return false
			}
			q := &an.PathQ{Fn: fn, StartEntry: true, Sink: an.IsReturn, Cut: isDrain,
				CutEdge: func(e an.Edge, _ *an.PathState) bool {
					for _, cmp := range an.CmpsOnEdge(e) {
						if a := lenArgOf(cmp.X); a != nil && isLoadOfField(a, fld) {
							if k, isC := an.ConstInt(cmp.Y); isC && k == 0 && (cmp.Op == token.EQL || cmp.Op == token.LEQ) {
								return true
							}
						}
					}
					return false
				}}
			w, skipped := q.Find()
			if skipped {
				c.Bad(fn, "drain of "+typ+"."+f.Name()+" on every path", fn.Pos(), typ+".flush can return without draining "+typ+"."+f.Name()+" although it may be non-empty (an early return that does not test this container): its messages are lost by a graceful restart", w)
			} else {
				c.OK(fn, "drain of "+typ+"."+f.Name()+" on every path", fn.Pos(), "")
			}
		}
	}
}

func c05meta(c *an.Ctx) {
	get := c.Fn("nsqd", "(*NSQD).GetMetadata")
	load := c.Fn("nsqd", "(*NSQD).LoadMetadata")
	if get == nil || load == nil {
		return
	}
	// every field of the metadata structs is both written by GetMetadata and read by LoadMetadata
	for _, tn := range []string{"TopicMetadata", "ChannelMetadata"} {
		nt := c.P.Named("nsqd", tn)
		if nt == nil {
			c.Anchor("nsqd." + tn)
			continue
		}
		st := nt.Underlying().(*types.Struct)
		for i := 0; i < st.NumFields(); i++ {
			f := st.Field(i)
			written, read := false, false
			an.Instrs(get, func(in ssa.Instruction) {
				if s, ok := in.(*ssa.Store); ok {
					if fa, ok := s.Addr.(*ssa.FieldAddr); ok && an.FieldOf(fa) == f {
						written = true
					}
				}
			})
			an.Instrs(load, func(in ssa.Instruction) {
				switch x := in.(type) {
				case *ssa.FieldAddr:
					if an.FieldOf(x) == f {
						read = true
					}
				case *ssa.Field:
					if an.FieldOf(x) == f {
						read = true
					}
				}
			})
			c.Check(written && read, get, "metadata field "+tn+"."+f.Name()+" round-trips", get.Pos(), "",
				sprintf("%s.%s written by GetMetadata=%v, read by LoadMetadata=%v: the attribute does not survive a restart", tn, f.Name(), written, read))
		}
	}
	// Paused comes from IsPaused() of the same object whose name is stored
	for _, spec := range []struct{ meta, typ string }{{"TopicMetadata", "Topic"}, {"ChannelMetadata", "Channel"}} {
		pf := c.P.Field("nsqd", spec.meta, "Paused")
		nf := c.P.Field("nsqd", spec.meta, "Name")
		isPaused := c.P.Func("nsqd", "(*"+spec.typ+").IsPaused")
		nameF := c.P.Field("nsqd", spec.typ, "name")
		var pausedObj, nameObj ssa.Value
		an.Instrs(get, func(in ssa.Instruction) {
			s, ok := in.(*ssa.Store)
			if !ok {
				return
			}
			fa, ok := s.Addr.(*ssa.FieldAddr)
			if !ok {
				return
			}
			switch an.FieldOf(fa) {
			case pf:
				if call, ok := s.Val.(*ssa.Call); ok && isPaused != nil && an.IsCallTo(call, isPaused) {
					pausedObj = recvArg(call)
				}
			case nf:
				if f, base := an.LoadedField(s.Val); f == nameF {
					nameObj = base
				}
			}
		})
		good := pausedObj != nil && nameObj != nil && an.SameValue(pausedObj, nameObj)
		c.Check(good, get, spec.meta+".Paused is the object's own flag", get.Pos(), "", spec.meta+".Paused is not IsPaused() of the same "+spec.typ+" whose name is recorded")
	}
	// LoadMetadata: for every topic: channels created and pauses applied before topic.Start()
	start := c.P.Func("nsqd", "(*Topic).Start")
	getCh := c.P.Func("nsqd", "(*Topic).GetChannel")
	getTopic := c.P.Func("nsqd", "(*NSQD).GetTopic")
	tPause := c.P.Func("nsqd", "(*Topic).Pause")
	chPause := c.P.Func("nsqd", "(*Channel).Pause")
	if start == nil || getCh == nil || getTopic == nil || tPause == nil || chPause == nil {
		c.Anchor("nsqd Topic.Start/GetChannel/Pause")
		return
	}
	starts := an.CallsTo(load, start)
	c.Check(len(starts) >= 1, load, "topics started after load", load.Pos(), "", "LoadMetadata never starts the topics it created")
	for _, sc := range starts {
		// after Start no GetChannel / Pause of that iteration is reachable before the next GetTopic
		q := &an.PathQ{Fn: load, StartAfter: []ssa.Instruction{sc.(ssa.Instruction)},
			Sink: func(in ssa.Instruction, _ *an.PathState) bool {
				return isCallToOn(in, getCh, nil) || isCallToOn(in, tPause, nil) || isCallToOn(in, chPause, nil)
			},
			Cut: func(in ssa.Instruction, _ *an.PathState) bool { return isCallToOn(in, getTopic, nil) }}
		w, f := q.Find()
		if f {
			c.Bad(load, "channels and pauses restored before Start", sc.Pos(), "the topic pump is started before all of its channels are re-created / pause flags re-applied: the first messages read from disk miss a channel or flow through a paused one", w)
		} else {
			c.OK(load, "channels and pauses restored before Start", sc.Pos(), "")
		}
		// Start receives the topic of this iteration
		good := an.CallResultOf(recvArg(sc), getTopic) != nil
		c.Check(good, load, "Start on the loaded topic", sc.Pos(), "", "Start() is not called on the topic returned by GetTopic in this iteration")
	}
	// each topic of the file: GetTopic, then Start on every path to the next iteration (valid names)
	for _, gc := range an.CallsTo(load, getTopic) {
		loops := an.NaturalLoops(load)
		l := an.LoopContaining(loops, gc.Block())
		q := &an.PathQ{Fn: load, StartAfter: []ssa.Instruction{gc.(ssa.Instruction)}, Sink: an.IsReturn,
			SinkEdge: func(e an.Edge, _ *an.PathState) bool { return l != nil && e.To == l.Header },
			Cut:      func(in ssa.Instruction, _ *an.PathState) bool { return isCallToOn(in, start, nil) }}
		w, f := q.Find()
		if f {
			c.Bad(load, "every loaded topic is started", gc.Pos(), "a topic created while loading can be left without Start(): its pump never reads the queue", w)
		} else {
			c.OK(load, "every loaded topic is started", gc.Pos(), "")
		}
	}
	// paused flag applied from the metadata of the same entry
	for _, spec := range []struct {
		pause *ssa.Function
		meta  string
	}{{tPause, "TopicMetadata"}, {chPause, "ChannelMetadata"}} {
		pf := c.P.Field("nsqd", spec.meta, "Paused")
		for _, pc := range an.CallsTo(load, spec.pause) {
			good := false
			for _, f := range an.FactsAt(pc.Block()) {
				if fv, _ := an.LoadedField(f.V); fv == pf && f.True {
					good = true
				}
				if fld, ok := f.V.(*ssa.Field); ok && an.FieldOf(fld) == pf && f.True {
					good = true
				}
			}
			c.Check(good, load, "pause re-applied iff recorded: "+spec.meta, pc.Pos(), "", "Pause() while loading is not conditioned on the entry's own Paused flag")
		}
		if len(an.CallsTo(load, spec.pause)) == 0 {
			c.Bad(load, "pause re-applied iff recorded: "+spec.meta, load.Pos(), "LoadMetadata never re-applies the recorded pause flag", nil)
		}
	}
}

func c05start(c *an.Ctx) {
	fn := c.Fn("nsqd", "(*Topic).messagePump")
	if fn == nil {
		return
	}
	startF := c.P.Field("nsqd", "Topic", "startChan")
	var startEdges []an.Edge
	for _, sel := range an.Selects(fn) {
		for _, st := range an.SelectStates(sel) {
			if st.State.Dir == types.RecvOnly && isLoadOfField(st.State.Chan, startF) {
				startEdges = append(startEdges, st.Chosen...)
			}
		}
	}
	if len(startEdges) == 0 {
		c.Bad(fn, "no queue read before Start", fn.Pos(), "the topic pump never waits for startChan", nil)
		return
	}
	sel, srcs := msgSelect(c, fn)
	if sel == nil {
		c.Und(fn, "no queue read before Start", fn.Pos(), "no queue select found")
		return
	}
	_ = srcs
	memF := c.P.Field("nsqd", "Topic", "memoryMsgChan")
	isQueueRead := func(in ssa.Instruction, _ *an.PathState) bool {
		if in == ssa.Instruction(sel) {
			return true
		}
		if s, ok := in.(*ssa.Select); ok {
			for _, st := range s.States {
				if st.Dir == types.RecvOnly && isLoadOfField(st.Chan, memF) {
					return true
				}
			}
		}
		return isInvokeOn(in, "BackendQueue", "ReadChan", nil)
	}
	q := &an.PathQ{Fn: fn, StartEntry: true, Sink: isQueueRead,
		CutEdge: func(e an.Edge, _ *an.PathState) bool { return an.EdgeIn(e, startEdges) }}
	w, f := q.Find()
	if f {
		c.Bad(fn, "no queue read before Start", fn.Pos(), "the topic pump can read its queues before Start(): messages are fanned out before the channels restored from metadata / lookupd exist", w)
	} else {
		c.OK(fn, "no queue read before Start", fn.Pos(), "")
	}
}
