package rules

import (
	"strings"

	"nsqverif/an"
)

// Shared clauses, second pass (DESIGN.md §11.16). Seven rounds of seeded changes showed that about a third of the changes a
// property's own check missed were reported by a clause armed only under a neighbouring property. Each row below arms an
// existing rule under a further property for which it is a necessary condition too; the reason is the row's text.
func init() {
	fnHas := func(subs ...string) func(string) bool {
		return func(n string) bool {
			for _, s := range subs {
				if strings.Contains(n, s) {
					return true
				}
			}
			return false
		}
	}
	chanRows := fnHas("Channel)")
	type row struct {
		id, engine, doc string
		floor           int
		run             func(*an.Ctx)
	}
	for _, r := range []row{
		// C01: a message that cannot be found again is lost
		{"C01.record", "CALLS+PATH", "a disk record is exactly one message: an overflowed message that shares or splits a record cannot be read back (shared with C07.record)", 4, c07record},
		{"C01.heap", "SHAPE", "the deadline heaps are min-heaps on the compared key: a message below a later one is not found when it times out (shared with C04.heap)", 3, c04heap},
		{"C01.heapops", "CALLS+SHAPE", "the deadline heaps are changed only through their heap protocol (shared with C04.heapops)", 4, c04heapops},
		{"C01.backindex", "SHAPE", "heap slot and back-index move together: with a wrong back-index, removing one message removes another's deadline, and that one is never redelivered (shared with C02.backindex)", 7, c02backindex},
		{"C01.sample", "IVAL", "the scan can sample every channel: a channel never drawn never gets its timed-out messages back (shared with C04.sample)", 1, c04sample},
		{"C01.staleindex", "GUARD", "a heap index read from a message is validated before it is used to remove (shared with C08.staleindex)", 1, c08staleindex},
		// C02: exclusivity of the in-flight holder
		{"C02.custody", "PATH", "REQ/TOUCH put the popped message back into exactly one container: in two, it is delivered to two consumers at once (shared with C01.req)", 6, c01req},
		{"C02.guarded", "LOCK", "the in-flight and deferred structures are touched only under their mutex: a racing pop gives two winners (the Channel rows of C08.guarded)", 20, only(c08guarded, chanRows)},
		{"C02.handoff", "PATH", "after a scan re-queued a message it no longer reads or writes it: the next holder owns it (shared with C13.handoff)", 2, c13handoff},
		{"C02.staleindex", "GUARD", "a heap index read from a message is validated in the critical section that uses it (shared with C08.staleindex)", 1, c08staleindex},
		// C04: deadlines
		{"C04.backindex", "SHAPE", "heap slot and back-index move together: a TOUCH/FIN that removes by a wrong index takes another message's deadline away (shared with C02.backindex)", 7, c02backindex},
		{"C04.staleindex", "GUARD", "a heap index read from a message is validated before use (shared with C08.staleindex)", 1, c08staleindex},
		{"C04.guarded", "LOCK", "the deadline heaps are touched only under their mutex (the Channel rows of C08.guarded)", 20, only(c08guarded, chanRows)},
		// C05: what a restart finds
		{"C05.put", "PATH", "put answers nil only after the message is in the memory queue or written to the backend (shared with C01.put)", 8, c01put},
		{"C05.registrywriters", "CALLS", "a topic or channel leaves the registry only through its delete entry point: anything else is forgotten by the next persist (shared with C06.registrywriters)", 2, c06registrywriters},
		{"C05.after", "PATH+LOCK", "every creation/deletion of a durable topic or channel is followed by a persist (shared with C06.after)", 4, c06after},
		{"C05.load", "GUARD", "a missing document is a fresh start and a bad name in it is skipped: the daemon starts again (shared with C06.load)", 4, c06load},
		{"C05.pause", "PATH", "a pause is on disk before it is acknowledged, so the flag survives the restart (shared with C06.pause)", 2, c06pause},
		// C06
		{"C06.meta", "SHAPE+PATH", "what GetMetadata writes is what LoadMetadata reads back (shared with C05.meta)", 7, c05meta},
		// C08: lifecycle under concurrency
		{"C08.window", "PATH+LOCK", "no Channel method waits for exit() while it holds a message it took out (shared with C05.window)", 3, c05window},
		{"C08.noiolock", "LOCK", "no network round trip while a registry lock is held: a slow nsqlookupd would stall every publisher and consumer (shared with C16.noiolock)", 3, c16noiolock},
		{"C08.registrywriters", "CALLS", "registry entries are removed only by the delete entry points (shared with C06.registrywriters)", 2, c06registrywriters},
		{"C08.loopvar", "ORIG", "goroutines started in a loop of package nsqd own their inputs (shared with C16.loopvar)", 0, loopvar("nsqd", "internal/protocol", "internal/util")},
		{"C08.started", "PATH", "a topic that was created has a running pump (shared with C01.started)", 1, c01started},
		// C09: the TCP protocol
		{"C09.readfull", "CALLS", "size prefixes and bodies are read whole (shared with C07.readfull)", 1, c07readfull},
		{"C09.scratch", "ORIG", "the length scratch buffer belongs to one connection (shared with C10.scratch)", 2, c10scratch},
		{"C09.atomicpub", "PATH", "a publish command that answers with an error has enqueued nothing (the TCP rows of C13.atomicpub)", 3, only(c13atomicpub, fnHas("protocolV2"))},
		// C10: the HTTP API does what it says
		{"C10.text", "ORIG", "text-mode /mpub enqueues the lines as they are (shared with C07.text)", 1, c07text},
		{"C10.ack", "PATH", "/pub and /mpub answer 200 only after the put on the topic they resolved succeeded (the HTTP rows of C01.ack)", 2, only(c01ack, fnHas("httpServer"))},
		{"C10.empty", "SHAPE", "/channel/empty empties every container of the channel (shared with C08.empty)", 6, c08empty},
		{"C10.wake", "PATH", "pause/unpause store the requested flag and wake those who must notice (shared with C03.wake)", 4, c03wake},
		{"C10.pause", "PATH", "pause/unpause answer after the flag was persisted (shared with C06.pause)", 2, c06pause},
		{"C10.getonce", "LOCK+GUARD", "create endpoints do not replace what exists (shared with C01.getonce)", 2, c01getonce},
		// C11
		{"C11.stack", "ORIG", "after the TLS upgrade every reader and writer of the connection sits on the TLS connection (shared with C07.stack)", 8, c07stack},
		// C12
		{"C12.envelope", "CALLS", "a message's id is written where it is created and decoded, nowhere else (shared with C07.envelope)", 5, c07envelope},
		// C13: the counters add up
		{"C13.order", "PATH", "a message is counted in flight before it is written to the consumer (shared with C03.order)", 1, c03order},
		{"C13.once", "PATH", "a message is stored in one container: in two, depth counts it twice (shared with C02.once)", 2, c02once},
		{"C13.scan", "PATH", "the deadline scans re-put what they remove: otherwise depth + in-flight + deferred lose a message that was never finished (shared with C01.scan)", 5, c01scan},
		{"C13.final", "CALLS", "FIN never re-inserts: a finished message is in no counter but message_count (shared with C02.final)", 1, c02final},
		// C14/C15: lookupd
		{"C14.loopvar", "ORIG", "goroutines started in a loop of nsqlookupd own their inputs (shared with C16.loopvar)", 0, loopvar("nsqlookupd")},
		{"C15.readfull", "CALLS", "nsqlookupd reads IDENTIFY bodies whole (shared with C07.readfull)", 1, c07readfull},
		{"C15.loopvar", "ORIG", "goroutines started in a loop of nsqlookupd own their inputs (shared with C16.loopvar)", 0, loopvar("nsqlookupd", "internal/protocol")},
		// C16: what nsqlookupd knows about an nsqd
		{"C16.after", "PATH+LOCK", "every creation/deletion of a topic or channel is announced (Notify is what makes lookupLoop REGISTER/UNREGISTER) (shared with C06.after)", 4, c06after},
		{"C16.own", "ORIG", "REGISTER/UNREGISTER add and remove the calling nsqd's own producer (shared with C14.own)", 6, c14own},
		{"C16.ephemeral", "GUARD", "registering a channel registers its topic (shared with C14.ephemeral)", 3, c14ephemeral},
		{"C16.disconnect", "PATH+ORIG", "an nsqd that disconnected is removed from all its registrations (shared with C14.disconnect)", 2, c14disconnect},
		{"C16.ping", "PATH", "a PING keeps the nsqd listed (shared with C14.ping)", 1, c14ping},
		{"C16.whole", "ORIG", "the lookup query nsqd makes decodes the whole answer (shared with C18.whole)", 2, c18whole},
		{"C16.stateless", "CALLS", "the HTTP client shared by nsqd's lookups keeps no state (shared with C17.stateless)", 1, c17stateless},
		// C17: admin actions reach everything
		{"C17.timeout", "SHAPE", "the upstream client gives up after the request timeout (shared with C16.timeout)", 1, c16timeout},
		{"C17.whole", "ORIG", "the upstream client decodes the whole answer (shared with C18.whole)", 2, c18whole},
		{"C17.mode", "GUARD", "lookupd mode exactly when lookupd addresses are configured: an action goes to the nsqlookupds that exist (shared with C18.mode)", 2, c18mode},
		{"C17.fanin", "SHAPE+LOCK", "the producer list an action is sent to is the union over every upstream (shared with C18.fanin)", 40, c18fanin},
		{"C17.loopvar", "ORIG", "goroutines started in a loop own their inputs (shared with C16.loopvar)", 1, loopvar("internal/clusterinfo", "nsqadmin")},
		// C19
		{"C19.loopvar", "ORIG", "goroutines started in a loop of nsq_to_file own their inputs (shared with C16.loopvar)", 0, loopvar("apps/nsq_to_file")},
	} {
		reg(r.id, r.engine, r.doc, r.floor, r.run)
		p := Props[r.id[:3]]
		if !strings.Contains(p.Explanation, "Further shared clauses") {
			p.Explanation += " Further shared clauses (DESIGN.md §11.16; each is listed with its reason under `rules`):"
		}
		p.Explanation += " " + r.id[4:] + ";"
		Props[r.id[:3]] = p
	}
}
