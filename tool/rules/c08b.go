package rules

import (
	"go/token"
	"go/types"

	"golang.org/x/tools/go/ssa"

	"nsqverif/an"
)

func init() {
	reg("C08.delete", "PATH", "delete sequences: flag -> notify -> close consumers -> empty -> delete backend; Delete() precedes unlinking from the registry, which precedes the pump token", 8, c08delete)
	reg("C08.empty", "SHAPE", "Channel.Empty resets all four in-flight/deferred structures, zeroes every consumer, drains every memory channel, then empties the backend", 6, c08empty)
	reg("C08.ephemeral", "GUARD+CALLS", "ephemeral topics/channels never get a disk queue, are auto-deleted once in a new goroutine when the last consumer/channel leaves, and are not pre-created from lookupd", 7, c08ephemeral)
	reg("C08.sub", "PATH", "SUB backs out (RemoveClient) of an exiting ephemeral channel/topic and only then retries or fails; subscription state is set only on the non-exiting edge", 3, c08sub)
	reg("C08.staleindex", "GUARD", "a heap index read from a message is validated (bounds and slot identity) in the critical section that uses it", 1, c08staleindex)
}

func paramConst(fn *ssa.Function, idx int, val bool) map[ssa.Value]*ssa.Const {
	return map[ssa.Value]*ssa.Const{fn.Params[idx]: an.BoolConst(val)}
}

func c08delete(c *an.Ctx) {
	notify := c.Fn("nsqd", "(*NSQD).Notify")
	chEmpty := c.Fn("nsqd", "(*Channel).Empty")
	tEmpty := c.Fn("nsqd", "(*Topic).Empty")
	chDelete := c.Fn("nsqd", "(*Channel).Delete")
	tDelete := c.Fn("nsqd", "(*Topic).Delete")
	chExit := c.Fn("nsqd", "(*Channel).exit")
	tExit := c.Fn("nsqd", "(*Topic).exit")
	if notify == nil || chEmpty == nil || tEmpty == nil || chDelete == nil || tDelete == nil || chExit == nil || tExit == nil {
		return
	}
	clientsF := c.P.Field("nsqd", "Channel", "clients")
	chanMapF := c.P.Field("nsqd", "Topic", "channelMap")
	topicMapF := c.P.Field("nsqd", "NSQD", "topicMap")
	chBackendF := c.P.Field("nsqd", "Channel", "backend")
	tBackendF := c.P.Field("nsqd", "Topic", "backend")

	// Delete()/Close() are thin wrappers
	for _, w := range []struct {
		fn, target *ssa.Function
		val        bool
	}{{chDelete, chExit, true}, {tDelete, tExit, true}} {
		good := false
		for _, ci := range an.CallsTo(w.fn, w.target) {
			if k, ok := an.Strip(arg(ci, 0)).(*ssa.Const); ok && k.Value != nil && k.Value.String() == "true" {
				good = true
			}
		}
		c.Check(good, w.fn, "Delete forwards to exit(true)", w.fn.Pos(), "", "Delete() no longer forwards to exit(deleted=true)")
	}

	// Channel.exit(deleted=true)
	{
		fn := chExit
		isRecv := func(v ssa.Value) bool { return isParam(v, fn, 0) }
		var closeLoop *an.IndexLoop
		for _, il := range mapRangeLoops(fn, clientsF) {
			ok, _ := loopDoesEach(fn, il, func(in ssa.Instruction, elems []ssa.Value) bool {
				return isInvokeOn(in, "Consumer", "Close", func(v ssa.Value) bool { return valueIn(v, elems) })
			})
			if ok {
				closeLoop = il
			}
		}
		c.Check(closeLoop != nil, fn, "closes every consumer", fn.Pos(), "", "no loop over c.clients that calls Close() on every consumer: deleted channels keep live subscriptions")
		steps := []step{
			{"CompareAndSwap exit flag", func(in ssa.Instruction) bool {
				call, ok := in.(*ssa.Call)
				return ok && an.StdCallee(call, "sync/atomic", "CompareAndSwapInt32")
			}},
			{"Notify", func(in ssa.Instruction) bool { return isCallToOn(in, notify, nil) }},
		}
		if closeLoop != nil {
			steps = append(steps, step{"close every consumer", func(in ssa.Instruction) bool { return in == ssa.Instruction(closeLoop.Iter) }})
		}
		steps = append(steps,
			step{"Empty", func(in ssa.Instruction) bool { return isCallToOn(in, chEmpty, isRecv) }},
			step{"backend.Delete", func(in ssa.Instruction) bool {
				return isInvokeOn(in, "BackendQueue", "Delete", func(v ssa.Value) bool { return isLoadOfField(v, chBackendF) })
			}})
		ok, missing, w := seqOnAllPaths(fn, paramConst(fn, 1, true), sinkSuccessReturn, steps)
		if ok {
			c.OK(fn, "delete sequence", fn.Pos(), "flag -> notify -> close consumers -> empty -> backend.Delete")
		} else {
			c.Bad(fn, "delete sequence", fn.Pos(), "on the deleted=true path a return is reachable without: "+missing, w)
		}
	}
	// Topic.exit(deleted=true)
	{
		fn := tExit
		isRecv := func(v ssa.Value) bool { return isParam(v, fn, 0) }
		var delLoop *an.IndexLoop
		for _, il := range mapRangeLoops(fn, chanMapF) {
			ok1, _ := loopDoesEach(fn, il, func(in ssa.Instruction, elems []ssa.Value) bool {
				return isCallToOn(in, chDelete, func(v ssa.Value) bool { return valueIn(v, elems) })
			})
			ok2, _ := loopDoesEach(fn, il, func(in ssa.Instruction, elems []ssa.Value) bool {
				call, ok := isBuiltinCall(in, "delete")
				return ok && isLoadOfField(call.Call.Args[0], chanMapF)
			})
			if ok1 && ok2 {
				delLoop = il
			}
		}
		c.Check(delLoop != nil, fn, "deletes every channel", fn.Pos(), "", "no loop over t.channelMap that unlinks and Delete()s every channel")
		steps := []step{
			{"CompareAndSwap exit flag", func(in ssa.Instruction) bool {
				call, ok := in.(*ssa.Call)
				return ok && an.StdCallee(call, "sync/atomic", "CompareAndSwapInt32")
			}},
			{"Notify", func(in ssa.Instruction) bool { return isCallToOn(in, notify, nil) }},
			{"close(exitChan)", func(in ssa.Instruction) bool { _, ok := isBuiltinCall(in, "close"); return ok }},
			{"waitGroup.Wait (pump stopped)", func(in ssa.Instruction) bool {
				call, ok := in.(*ssa.Call)
				return ok && an.StdCallee(call, "sync", "(*WaitGroup).Wait")
			}},
		}
		if delLoop != nil {
			steps = append(steps, step{"delete every channel", func(in ssa.Instruction) bool { return in == ssa.Instruction(delLoop.Iter) }})
		}
		steps = append(steps,
			step{"Empty", func(in ssa.Instruction) bool { return isCallToOn(in, tEmpty, isRecv) }},
			step{"backend.Delete", func(in ssa.Instruction) bool {
				return isInvokeOn(in, "BackendQueue", "Delete", func(v ssa.Value) bool { return isLoadOfField(v, tBackendF) })
			}})
		ok, missing, w := seqOnAllPaths(fn, paramConst(fn, 1, true), sinkSuccessReturn, steps)
		if ok {
			c.OK(fn, "delete sequence", fn.Pos(), "flag -> notify -> stop pump -> delete channels -> empty -> backend.Delete")
		} else {
			c.Bad(fn, "delete sequence", fn.Pos(), "on the deleted=true path a return is reachable without: "+missing, w)
		}
	}
	// DeleteExistingChannel / DeleteExistingTopic
	for _, spec := range []struct {
		name   string
		del    *ssa.Function
		mapF   *types.Var
		hasTok bool
	}{{"(*Topic).DeleteExistingChannel", chDelete, chanMapF, true}, {"(*NSQD).DeleteExistingTopic", tDelete, topicMapF, false}} {
		fn := c.Fn("nsqd", spec.name)
		if fn == nil {
			continue
		}
		lookupOK := func(in ssa.Instruction) bool { l, ok := in.(*ssa.Lookup); return ok && isLoadOfField(l.X, spec.mapF) }
		var looked []ssa.Value
		an.Instrs(fn, func(in ssa.Instruction) {
			if lookupOK(in) {
				looked = append(looked, an.ResultN(in.(ssa.Value), 0)...)
				looked = append(looked, in.(ssa.Value))
			}
		})
		steps := []step{
			{"Delete() of the looked-up object", func(in ssa.Instruction) bool {
				return isCallToOn(in, spec.del, func(v ssa.Value) bool { return valueIn(v, looked) })
			}},
			{"unlink from the registry map", func(in ssa.Instruction) bool {
				call, ok := isBuiltinCall(in, "delete")
				return ok && isLoadOfField(call.Call.Args[0], spec.mapF)
			}},
		}
		if spec.hasTok {
			updF := c.P.Field("nsqd", "Topic", "channelUpdateChan")
			steps = append(steps, step{"membership token", func(in ssa.Instruction) bool {
				if s, ok := in.(*ssa.Select); ok {
					for _, st := range s.States {
						if st.Dir == types.SendOnly && isLoadOfField(st.Chan, updF) {
							return true
						}
					}
				}
				if s, ok := in.(*ssa.Send); ok && isLoadOfField(s.Chan, updF) {
					return true
				}
				return false
			}})
		}
		ok, missing, w := seqOnAllPaths(fn, nil, sinkSuccessReturn, steps)
		if ok {
			c.OK(fn, "delete then unlink", fn.Pos(), "")
		} else {
			c.Bad(fn, "delete then unlink", fn.Pos(), "a successful return is reachable without: "+missing+" (re-creation could otherwise observe the half-deleted object, or the registry keeps a dead entry)", w)
		}
	}
}

func c08empty(c *an.Ctx) {
	fn := c.Fn("nsqd", "(*Channel).Empty")
	initPQ := c.Fn("nsqd", "(*Channel).initPQ")
	if fn == nil || initPQ == nil {
		return
	}
	clientsF := c.P.Field("nsqd", "Channel", "clients")
	backendF := c.P.Field("nsqd", "Channel", "backend")
	isRecv := func(v ssa.Value) bool { return isParam(v, fn, 0) }
	// initPQ resets all four structures with fresh values
	for _, f := range []string{"inFlightMessages", "inFlightPQ", "deferredMessages", "deferredPQ"} {
		fv := c.P.Field("nsqd", "Channel", f)
		fresh := false
		an.Instrs(initPQ, func(in ssa.Instruction) {
			st, ok := in.(*ssa.Store)
			if !ok {
				return
			}
			fa, ok := st.Addr.(*ssa.FieldAddr)
			if !ok || an.FieldOf(fa) != fv || !isParam(fa.X, initPQ, 0) {
				return
			}
			switch v := an.Strip(st.Val).(type) {
			case *ssa.MakeMap:
				fresh = true
			case *ssa.Call:
				if f := an.StaticCallee(v); f != nil && (an.BaseName(f) == "New" || an.BaseName(f) == "newInFlightPqueue") {
					fresh = true
				}
			}
		})
		c.Check(fresh, initPQ, "resets "+f, initPQ.Pos(), "", "initPQ no longer replaces Channel."+f+" with a fresh structure: emptied messages stay in flight/deferred and are delivered later")
	}
	var emptyLoop *an.IndexLoop
	for _, il := range mapRangeLoops(fn, clientsF) {
		ok, _ := loopDoesEach(fn, il, func(in ssa.Instruction, elems []ssa.Value) bool {
			return isInvokeOn(in, "Consumer", "Empty", func(v ssa.Value) bool { return valueIn(v, elems) })
		})
		if ok {
			emptyLoop = il
		}
	}
	c.Check(emptyLoop != nil, fn, "zeroes every consumer", fn.Pos(), "", "Channel.Empty does not call Empty() on every consumer: their in-flight counts stay stale and RDY accounting blocks delivery")
	// drain: every chan *Message field of Channel is received from in a non-blocking select that loops until default
	msgT := c.P.Named("nsqd", "Message")
	chT := c.P.Named("nsqd", "Channel")
	drained := map[string]bool{}
	for _, sel := range an.Selects(fn) {
		if sel.Blocking {
			continue
		}
		for _, st := range sel.States {
			if st.Dir == types.RecvOnly {
				if f := an.ChanField(an.Strip(st.Chan)); f != nil {
					drained[an.FName(f)] = true
				}
			}
		}
	}
	if chT != nil {
		st := chT.Underlying().(*types.Struct)
		for i := 0; i < st.NumFields(); i++ {
			f := st.Field(i)
			ch, ok := f.Type().Underlying().(*types.Chan)
			if !ok {
				continue
			}
			if pt, ok := ch.Elem().(*types.Pointer); ok && types.Identical(pt.Elem(), msgT) {
				c.Check(drained[an.FName(f)], fn, "drains "+f.Name(), fn.Pos(), "", "Channel.Empty does not drain Channel."+f.Name()+": messages queued there survive the empty")
			}
		}
	}
	steps := []step{
		{"c.Lock", func(in ssa.Instruction) bool {
			call, ok := in.(*ssa.Call)
			return ok && an.StdCallee(call, "sync", "(*RWMutex).Lock")
		}},
		{"initPQ", func(in ssa.Instruction) bool { return isCallToOn(in, initPQ, isRecv) }},
	}
	if emptyLoop != nil {
		steps = append(steps, step{"zero every consumer", func(in ssa.Instruction) bool { return in == ssa.Instruction(emptyLoop.Iter) }})
	}
	steps = append(steps, step{"backend.Empty", func(in ssa.Instruction) bool {
		return isInvokeOn(in, "BackendQueue", "Empty", func(v ssa.Value) bool { return isLoadOfField(v, backendF) })
	}})
	ok, missing, w := seqOnAllPaths(fn, nil, an.IsReturn, steps)
	if ok {
		c.OK(fn, "empty sequence", fn.Pos(), "")
	} else {
		c.Bad(fn, "empty sequence", fn.Pos(), "a return is reachable without: "+missing, w)
	}
	// Topic.Empty drains its memory channel and empties the backend
	if tfn := c.Fn("nsqd", "(*Topic).Empty"); tfn != nil {
		tb := c.P.Field("nsqd", "Topic", "backend")
		mem := c.P.Field("nsqd", "Topic", "memoryMsgChan")
		dr := false
		for _, sel := range an.Selects(tfn) {
			for _, st := range sel.States {
				if st.Dir == types.RecvOnly && isLoadOfField(st.Chan, mem) && !sel.Blocking {
					dr = true
				}
			}
		}
		ok, missing, w := seqOnAllPaths(tfn, nil, an.IsReturn, []step{{"backend.Empty", func(in ssa.Instruction) bool {
			return isInvokeOn(in, "BackendQueue", "Empty", func(v ssa.Value) bool { return isLoadOfField(v, tb) })
		}}})
		if dr && ok {
			c.OK(tfn, "empty sequence", tfn.Pos(), "")
		} else {
			c.Bad(tfn, "empty sequence", tfn.Pos(), "Topic.Empty does not drain memoryMsgChan and empty the backend on every path: "+missing, w)
		}
	}
}

// ephemeralTests returns the BoolTests of strings.HasSuffix(x, "#ephemeral") calls in fn (directly or via a
// field that was stored from such a call in the same function).
func ephemeralSuffixCalls(fn *ssa.Function) []*ssa.Call {
	var out []*ssa.Call
	an.Instrs(fn, func(in ssa.Instruction) {
		call, ok := in.(*ssa.Call)
		if !ok || !an.StdCallee(call, "strings", "HasSuffix") {
			return
		}
		if s, ok := an.ConstString(call.Call.Args[1]); ok && s == "#ephemeral" {
			out = append(out, call)
		}
	})
	return out
}

func c08ephemeral(c *an.Ctx) {
	dqNew := c.P.Func("github.com/nsqio/go-diskqueue", "New")
	if dqNew == nil {
		c.Anchor("go-diskqueue.New")
		return
	}
	// 1. diskqueue.New only in the two constructors, on the non-ephemeral edge
	for _, fn := range c.P.RepoFuncs() {
		for _, ci := range an.CallsTo(fn, dqNew) {
			name := an.FnName(fn)
			if name != "nsqd.NewTopic" && name != "nsqd.NewChannel" {
				c.Bad(fn, "diskqueue.New caller", ci.Pos(), "a disk queue is created outside NewTopic/NewChannel, bypassing the ephemeral test", nil)
				continue
			}
			// dominated by the false edge of an ephemeral test: either HasSuffix(...) directly or a load of the
			// .ephemeral field of the object under construction that was stored from HasSuffix / true on the other edge
			okGuard := false
			for _, f := range an.FactsAt(ci.Block()) {
				if f.True {
					continue
				}
				if call, ok := f.V.(*ssa.Call); ok {
					for _, hc := range ephemeralSuffixCalls(fn) {
						if hc == call {
							okGuard = true
						}
					}
				}
				if fld, _ := an.LoadedField(f.V); fld != nil && fld.Name() == "ephemeral" {
					// field must be assigned from HasSuffix(#ephemeral)
					for _, hc := range ephemeralSuffixCalls(fn) {
						for _, r := range an.Referrers(hc) {
							if st, ok := r.(*ssa.Store); ok {
								if fa, ok := st.Addr.(*ssa.FieldAddr); ok && an.FieldOf(fa) == fld {
									okGuard = true
								}
							}
						}
					}
				}
			}
			c.Check(okGuard, fn, "diskqueue.New only for non-ephemeral", ci.Pos(), "", "diskqueue.New is reachable for a name with the #ephemeral suffix: ephemeral queues reach the disk")
		}
	}
	// the ephemeral flag itself is HasSuffix(name, "#ephemeral") and the ephemeral edge installs the dummy backend
	dummy := c.Fn("nsqd", "newDummyBackendQueue")
	for _, spec := range []struct{ fn, typ string }{{"NewTopic", "Topic"}, {"NewChannel", "Channel"}} {
		fn := c.Fn("nsqd", spec.fn)
		if fn == nil || dummy == nil {
			continue
		}
		ef := c.P.Field("nsqd", spec.typ, "ephemeral")
		bf := c.P.Field("nsqd", spec.typ, "backend")
		flagOK := false
		an.Instrs(fn, func(in ssa.Instruction) {
			st, ok := in.(*ssa.Store)
			if !ok {
				return
			}
			fa, ok := st.Addr.(*ssa.FieldAddr)
			if !ok || an.FieldOf(fa) != ef {
				return
			}
			// stored from HasSuffix, or constant true on the HasSuffix-true edge
			if call, ok := st.Val.(*ssa.Call); ok {
				for _, hc := range ephemeralSuffixCalls(fn) {
					if hc == call {
						flagOK = true
					}
				}
			}
			if k, ok := st.Val.(*ssa.Const); ok && k.Value != nil && k.Value.String() == "true" {
				for _, f := range an.FactsAt(st.Block()) {
					if call, ok := f.V.(*ssa.Call); ok && f.True {
						for _, hc := range ephemeralSuffixCalls(fn) {
							if hc == call {
								flagOK = true
							}
						}
					}
				}
			}
		})
		c.Check(flagOK, fn, "ephemeral flag from #ephemeral suffix", fn.Pos(), "", "the ephemeral flag is not derived from the #ephemeral name suffix")
		dummyOK := false
		dummyCalls := map[ssa.Value]bool{}
		for _, ci := range an.CallsTo(fn, dummy) {
			dummyCalls[ci.Value()] = true
		}
		// what is stored into the backend field comes (directly, or merged with the disk queue of the other arm) from the
		// dummy constructor
		an.Instrs(fn, func(in ssa.Instruction) {
			st, ok := in.(*ssa.Store)
			if !ok {
				return
			}
			fa, ok := st.Addr.(*ssa.FieldAddr)
			if !ok || an.FieldOf(fa) != bf {
				return
			}
			for _, o := range originsOrNone(st.Val) {
				o = an.Strip(o)
				if mi, ok := o.(*ssa.MakeInterface); ok {
					o = an.Strip(mi.X)
				}
				if dummyCalls[o] {
					dummyOK = true
				}
			}
		})
		c.Check(dummyOK, fn, "ephemeral gets dummy backend", fn.Pos(), "", "the ephemeral branch does not install the dummy (disk-less) backend")
	}
	// 2. auto delete: `go x.deleter.Do(...)` on the edge count==0 && ephemeral
	for _, spec := range []struct{ fn, typ string }{{"(*Channel).RemoveClient", "Channel"}, {"(*Topic).DeleteExistingChannel", "Topic"}} {
		fn := c.Fn("nsqd", spec.fn)
		if fn == nil {
			continue
		}
		ef := c.P.Field("nsqd", spec.typ, "ephemeral")
		var goDo []ssa.Instruction
		an.Instrs(fn, func(in ssa.Instruction) {
			g, ok := in.(*ssa.Go)
			if ok && an.StdCallee(g, "sync", "(*Once).Do") {
				goDo = append(goDo, in)
			}
		})
		if len(goDo) != 1 {
			c.Bad(fn, "auto-delete once in a goroutine", fn.Pos(), sprintf("expected exactly one `go deleter.Do(...)`, found %d (a synchronous delete deadlocks on the exit lock; a plain call can delete twice)", len(goDo)), nil)
			continue
		}
		g := goDo[0]
		hasEph, hasZero := false, false
		for _, f := range an.FactsAt(g.Block()) {
			if fld, _ := an.LoadedField(f.V); fld == ef && f.True {
				hasEph = true
			}
			if cmp, ok := f.AsCmp(); ok && cmp.Op == token.EQL {
				if k, isC := an.ConstInt(cmp.Y); isC && k == 0 {
					hasZero = true
				}
			}
		}
		c.Check(hasEph && hasZero, fn, "auto-delete once in a goroutine", g.Pos(), "", "auto-delete is not restricted to `count == 0 && ephemeral`: durable objects or objects with consumers can be deleted")
		// the count is len(registry) read after the delete, inside the same write-lock hold
		mapName := map[string]string{"Channel": "clients", "Topic": "channelMap"}[spec.typ]
		lockClass := spec.typ + ".RWMutex"
		mapF := c.P.Field("nsqd", spec.typ, mapName)
		fresh := false
		la := c.P.Locks()
		for _, f := range an.FactsAt(g.Block()) {
			cmp, ok := f.AsCmp()
			if !ok || cmp.Op != token.EQL {
				continue
			}
			if k, isC := an.ConstInt(cmp.Y); !isC || k != 0 {
				continue
			}
			for _, o := range an.Origins(cmp.X) {
				lc, ok := o.(*ssa.Call)
				if !ok {
					continue
				}
				a := lenArgOf(lc)
				if a == nil || !isLoadOfField(a, mapF) {
					continue
				}
				must, _ := la.Fns[fn].At(lc)
				if !must.Holds(lockClass, "", true) {
					continue
				}
				// a delete on the same map earlier in the same block (same critical section)
				for _, x := range lc.Block().Instrs {
					if x == ssa.Instruction(lc) {
						break
					}
					if dc, ok := isBuiltinCall(x, "delete"); ok && isLoadOfField(dc.Call.Args[0], mapF) {
						fresh = true
					}
				}
			}
		}
		c.Check(fresh, fn, "auto-delete decided on the count after the unlink", g.Pos(), "",
			"the `count == 0` that triggers the ephemeral auto-delete is not len("+mapName+") read after the delete inside the same write-lock hold: two overlapping removals can both see 'one left' (nobody deletes the empty ephemeral object) or delete an object that still has members")
		// the closure calls deleteCallback on the same object
	}
	// 3. GetTopic pre-creation skips #ephemeral names
	if fn := c.Fn("nsqd", "(*NSQD).GetTopic"); fn != nil {
		getCh := c.Fn("nsqd", "(*Topic).GetChannel")
		ci := c.P.Func("internal/clusterinfo", "(*ClusterInfo).GetLookupdTopicChannels")
		if getCh != nil && ci != nil {
			for _, gc := range an.CallsTo(fn, getCh) {
				nameArg := arg(gc, 0)
				good := false
				for _, f := range an.FactsAt(gc.Block()) {
					if call, ok := f.V.(*ssa.Call); ok && !f.True {
						for _, hc := range ephemeralSuffixCalls(fn) {
							if hc == call && an.SameValue(hc.Call.Args[0], nameArg) {
								good = true
							}
						}
					}
				}
				c.Check(good, fn, "pre-creation skips ephemeral", gc.Pos(), "", "channels learned from nsqlookupd are pre-created even when ephemeral: an ephemeral channel without consumers is never cleaned up")
			}
		}
	}
}

func c08sub(c *an.Ctx) {
	fn := c.Fn("nsqd", "(*protocolV2).SUB")
	add := c.Fn("nsqd", "(*Channel).AddClient")
	rem := c.Fn("nsqd", "(*Channel).RemoveClient")
	chExiting := c.Fn("nsqd", "(*Channel).Exiting")
	tExiting := c.Fn("nsqd", "(*Topic).Exiting")
	if fn == nil || add == nil || rem == nil || chExiting == nil || tExiting == nil {
		return
	}
	adds := an.CallsTo(fn, add)
	if len(adds) == 0 {
		c.Bad(fn, "AddClient", fn.Pos(), "SUB never adds the client to the channel", nil)
		return
	}
	stateF := c.P.Field("nsqd", "clientV2", "State")
	subEvF := c.P.Field("nsqd", "clientV2", "SubEventChan")
	isCommit := func(in ssa.Instruction) bool {
		if call, ok := in.(*ssa.Call); ok && an.StdCallee(call, "sync/atomic", "StoreInt32") {
			if fa, ok := call.Call.Args[0].(*ssa.FieldAddr); ok && an.FieldOf(fa) == stateF {
				return true
			}
		}
		if s, ok := in.(*ssa.Send); ok && isLoadOfField(s.Chan, subEvF) {
			return true
		}
		return false
	}
	// after AddClient, Exiting() of the channel and of the topic are consulted; with either of them answering true (on an
	// ephemeral object) the subscription is not committed and the client is taken off the channel again. Judged on paths
	// with the call's result fixed, so the test may be a computed boolean assembled in several steps.
	ephC := c.P.Field("nsqd", "Channel", "ephemeral")
	ephT := c.P.Field("nsqd", "Topic", "ephemeral")
	kinds := map[*ssa.Function]bool{}
	var exitingCalls []*ssa.Call
	an.Instrs(fn, func(in ssa.Instruction) {
		call, ok := in.(*ssa.Call)
		if !ok {
			return
		}
		for _, ex := range []*ssa.Function{chExiting, tExiting} {
			if an.IsCallTo(call, ex) {
				kinds[ex] = true
				exitingCalls = append(exitingCalls, call)
			}
		}
	})
	c.Check(len(kinds) == 2, fn, "tests channel and topic exiting", fn.Pos(), "", "SUB no longer tests both the channel and the topic for Exiting() after AddClient")
	for _, ac := range adds {
		succ, _ := an.ErrEdges(ac.Value())
		// (a) with an Exiting() that answered true, commit (state store / SubEventChan send) or a success return is
		// unreachable without passing RemoveClient
		bad := false
		var w []string
		for _, ec := range exitingCalls {
			consts := map[ssa.Value]*ssa.Const{ec: an.BoolConst(true)}
			an.Instrs(fn, func(in ssa.Instruction) {
				if u, ok := in.(*ssa.UnOp); ok {
					if f, _ := an.LoadedField(u); f != nil && (f == ephC || f == ephT) {
						consts[u] = an.BoolConst(true)
					}
				}
			})
			q := &an.PathQ{Fn: fn, StartAfter: []ssa.Instruction{ec}, Consts: consts, AllConsts: true,
				// committing, answering (OK or error) or trying again – none of them before the client is off the channel
				Sink: func(in ssa.Instruction, ps *an.PathState) bool {
					return isCommit(in) || an.IsReturn(in, nil) || isCallToOn(in, add, nil)
				},
				Cut: func(in ssa.Instruction, _ *an.PathState) bool { return isCallToOn(in, rem, nil) }}
			if ww, f := q.Find(); f {
				bad, w = true, ww
			}
		}
		if bad || len(exitingCalls) == 0 {
			c.Bad(fn, "backs out of exiting channel", ac.Pos(), "after AddClient, with the ephemeral channel/topic exiting, SUB can commit the subscription or answer OK without RemoveClient: the client is attached to a channel that is being deleted", w)
		} else {
			c.OK(fn, "backs out of exiting channel", ac.Pos(), "")
		}
		// (b) commit is cut by AddClient success
		q2 := &an.PathQ{Fn: fn, StartEntry: true,
			Sink:    func(in ssa.Instruction, _ *an.PathState) bool { return isCommit(in) },
			CutEdge: func(e an.Edge, _ *an.PathState) bool { return an.EdgeIn(e, succ) }}
		w, f := q2.Find()
		if f || len(succ) == 0 {
			c.Bad(fn, "commit after AddClient success", ac.Pos(), "the subscription is committed without a successful AddClient", w)
		} else {
			c.OK(fn, "commit after AddClient success", ac.Pos(), "")
		}
	}
}

func c08staleindex(c *an.Ctx) {
	remove := c.Fn("nsqd", "(*inFlightPqueue).Remove")
	if remove == nil {
		return
	}
	idxF := c.P.Field("nsqd", "Message", "index")
	pqF := c.P.Field("nsqd", "Channel", "inFlightPQ")
	n := 0
	for _, fn := range c.P.PkgFuncs("nsqd") {
		for _, ci := range an.CallsTo(fn, remove) {
			idx := arg(ci, 0)
			f, msgBase := an.LoadedField(an.Strip(idx))
			if f != idxF {
				continue // index computed locally (e.g. PeekAndShift's 0)
			}
			n++
			isIdx := func(v ssa.Value) bool {
				lf, b := an.LoadedField(an.Strip(v))
				return lf == idxF && an.SameValue(b, msgBase)
			}
			upper, identity := false, false
			for _, cmp := range an.CmpsAt(ci.Block()) {
				if oc, ok := cmp.Oriented(isIdx); ok {
					if oc.Op == token.LSS {
						if a := lenArgOf(oc.Y); a != nil && isLoadOfField(a, pqF) {
							upper = true
						}
					}
				}
				if cmp.Op == token.EQL {
					// pq[idx] == msg
					for _, pair := range [][2]ssa.Value{{cmp.X, cmp.Y}, {cmp.Y, cmp.X}} {
						if u, ok := pair[0].(*ssa.UnOp); ok && u.Op == token.MUL {
							if ia, ok := u.X.(*ssa.IndexAddr); ok && isIdx(ia.Index) && isLoadOfField(ia.X, pqF) && an.SameValue(pair[1], msgBase) {
								identity = true
							}
						}
					}
				}
			}
			if upper && identity {
				c.OK(fn, "heap index from message validated", ci.Pos(), "bounds and slot identity checked under the same lock")
			} else {
				c.Bad(fn, "heap index from message validated", ci.Pos(),
					"inFlightPQ.Remove(msg.index) uses an index stored in the message by an earlier critical section without re-validating it (index < len(queue) and queue[index] == msg) under the lock that protects the queue. "+
						"Schedule: FIN/REQ/TOUCH pops the message from the in-flight map; Channel.Empty (initPQ) replaces the queue; the stale index then addresses the new queue => index out of range on the connection goroutine (no recover) => nsqd dies; or a different message is silently removed from the timeout heap", nil)
			}
		}
	}
	if n == 0 {
		c.OK(remove, "heap index from message validated", remove.Pos(), "no Remove call takes its index from Message.index")
	}
}

func lenArgOf(v ssa.Value) ssa.Value {
	if call, ok := an.Strip(v).(*ssa.Call); ok {
		if bi, ok := call.Call.Value.(*ssa.Builtin); ok && bi.Name() == "len" {
			return call.Call.Args[0]
		}
	}
	return nil
}
