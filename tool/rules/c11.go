package rules

import (
	"fmt"
	"go/token"
	"go/types"
	"os"

	"golang.org/x/tools/go/ssa"

	"nsqverif/an"
)

func init() {
	Props["C11"] = PropInfo{
		Explanation: "Decides the gates: (tls) every command except IDENTIFY is dispatched only through the success edge of enforceTLSPolicy, which succeeds only if TLS is not required or the connection's TLS flag is set, and that flag is set only after a successful handshake started by IDENTIFY; " +
			"(http) the plaintext HTTP server answers 403 without reaching the router when TLS is required, with tcp-https exempt by construction; " +
			"(auth) in PUB/MPUB/DPUB/SUB no topic/channel/message is created before CheckAuth succeeded for the very topic (and channel) that is then used; " +
			"(check) CheckAuth succeeds only when auth is off or the client is authorised by a non-expired (re-fetched if expired) answer granting the right permission for topic and channel; every refusal is the documented fatal error.",
		NotDecided:  "crypto/tls itself; wall-clock freshness of the auth answer (IsExpired compares against time.Now – shape only); regex semantics of grants.",
		Assumptions: []string{"the auth server's JSON is decoded by encoding/json into auth.State as declared"},
	}
	reg("C11.tls", "PATH", "TLS gate in front of every command but IDENTIFY; TLS flag set only after handshake success", 14, c11tls)
	reg("C11.http", "PATH+ORIG", "plaintext HTTP refused with 403 when TLS is required (tcp-https exempt)", 4, c11http)
	reg("C11.auth", "PATH+ORIG", "PUB/MPUB/DPUB/SUB create nothing before CheckAuth succeeded for the same topic/channel", 12, c11auth)
	reg("C11.check", "PATH+GUARD", "CheckAuth/IsAuthorized/IsAllowed: success only with a valid, fresh grant of the right permission; refusals are the documented fatal errors", 10, c11check)
}

func c11tls(c *an.Ctx) {
	exec := c.Fn("nsqd", "(*protocolV2).Exec")
	upgrade := c.Fn("nsqd", "(*clientV2).UpgradeTLS")
	identify := c.Fn("nsqd", "(*protocolV2).IDENTIFY")
	if exec == nil || upgrade == nil || identify == nil {
		return
	}
	tlsF := c.P.Field("nsqd", "clientV2", "TLS")
	// "the policy is satisfied" is a fact: TLSRequired == TLSNotRequired, or the connection's TLS flag is 1
	policyOK := func(cmps []an.Cmp) bool {
		for _, cmp := range cmps {
			if cmp.Op != token.EQL {
				continue
			}
			if isOptsField(c, cmp.X, "nsqd", "TLSRequired") {
				if k, isC := an.ConstInt(cmp.Y); isC && k == 0 {
					return true
				}
			}
			if atomicLoadOf(cmp.X, tlsF) {
				if k, isC := an.ConstInt(cmp.Y); isC && k == 1 {
					return true
				}
			}
		}
		return false
	}
	// a gate function (enforceTLSPolicy on the pinned tree): returns an error, mentions the policy, and every return that
	// can be nil comes in on an edge where the policy is satisfied
	isGate := func(g *ssa.Function) (gate bool, bad *ssa.Return) {
		if g == nil || len(g.Blocks) == 0 || g.Signature.Results().Len() != 1 || !an.IsErrorType(g.Signature.Results().At(0).Type()) {
			return false, nil
		}
		mentions := false
		for _, b := range g.Blocks {
			for _, s := range b.Succs {
				if policyOK(an.CmpsOnEdge(an.Edge{From: b, To: s})) {
					mentions = true
				}
			}
		}
		if !mentions {
			return false, nil
		}
		for _, r := range an.Returns(g) {
			if !isSuccessReturn(r) {
				continue
			}
			good := true
			b := r.Block()
			if len(b.Preds) <= 1 {
				good = policyOK(an.CmpsAt(b))
			} else {
				for _, p := range b.Preds {
					if !policyOK(an.CmpsOnEdge(an.Edge{From: p, To: b})) && !policyOK(an.CmpsAt(p)) {
						good = false
					}
				}
			}
			if !good {
				return true, r
			}
		}
		return true, nil
	}
	var succ []an.Edge
	an.Instrs(exec, func(in ssa.Instruction) {
		call, ok := in.(*ssa.Call)
		if !ok {
			return
		}
		g := an.StaticCallee(call)
		if g == nil || g.Pkg != exec.Pkg {
			return
		}
		gate, bad := isGate(g)
		if !gate {
			return
		}
		if bad != nil {
			c.Bad(g, "policy passes only without requirement or over TLS", bad.Pos(), g.Name()+" can return nil although TLS is required and the connection is not upgraded", nil)
			return
		}
		c.OK(g, "policy passes only without requirement or over TLS", g.Pos(), "")
		s, _ := an.ErrEdges(call)
		succ = append(succ, s...)
	})
	for _, cmd := range nsqdCommands {
		h := c.P.Func("nsqd", "(*protocolV2)."+cmd)
		if h == nil {
			continue
		}
		for _, hc := range an.CallsTo(exec, h) {
			if cmd == "IDENTIFY" {
				c.OK(exec, "IDENTIFY exempt (negotiates TLS)", hc.Pos(), "")
				continue
			}
			dynamic := an.StaticCallee(hc) == nil // one call site for every handler, through a method value the path chose
			q := &an.PathQ{Fn: exec, StartEntry: true, AllAlias: dynamic, FullOnly: dynamic,
				Sink: func(in ssa.Instruction, ps *an.PathState) bool {
					if in != hc.(ssa.Instruction) {
						return false
					}
					if dynamic {
						f := calleeOnPath(hc, ps)
						return f == nil || f == h || f.Origin() == h
					}
					return true
				},
				CutEdge: func(e an.Edge, st *an.PathState) bool {
					// through the success edge of a gate function, or an edge of Exec itself on which the policy is satisfied
					return an.EdgeIn(e, succ) || policyOK(st.CmpsOnEdge(e))
				}}
			w, f := q.Find()
			if f {
				c.Bad(exec, cmd+" behind the TLS gate", hc.Pos(), cmd+" can be dispatched although TLS is required and the connection was not upgraded (no path-cutting test of TLSRequired / client.TLS before it): with --tls-required a plaintext client executes it", w)
			} else {
				c.OK(exec, cmd+" behind the TLS gate", hc.Pos(), "")
			}
		}
	}
	// the TLS flag: only UpgradeTLS stores 1, after Handshake success
	for _, fn := range c.P.PkgFuncs("nsqd") {
		an.Instrs(fn, func(in ssa.Instruction) {
			call, ok := in.(*ssa.Call)
			if !ok || !(an.StdCallee(call, "sync/atomic", "StoreInt32") || an.StdCallee(call, "sync/atomic", "SwapInt32") || an.StdCallee(call, "sync/atomic", "AddInt32") || an.StdCallee(call, "sync/atomic", "CompareAndSwapInt32")) {
				return
			}
			fa, ok := call.Call.Args[0].(*ssa.FieldAddr)
			if !ok || an.FieldOf(fa) != tlsF {
				return
			}
			if fn != upgrade {
				c.Bad(fn, "TLS flag writer", call.Pos(), "clientV2.TLS is written outside UpgradeTLS", nil)
				return
			}
			var hs []an.Edge
			an.Instrs(fn, func(x ssa.Instruction) {
				if hc, ok := x.(*ssa.Call); ok && an.StdCallee(hc, "crypto/tls", "(*Conn).Handshake") {
					s, _ := an.ErrEdges(hc)
					hs = append(hs, s...)
				}
			})
			q := &an.PathQ{Fn: fn, StartEntry: true, Sink: func(x ssa.Instruction, _ *an.PathState) bool { return x == in },
				CutEdge: func(e an.Edge, _ *an.PathState) bool { return an.EdgeIn(e, hs) }}
			_, f := q.Find()
			c.Check(!f && len(hs) > 0, fn, "TLS flag set only after handshake success", call.Pos(), "", "the connection is marked as TLS without a successful handshake")
		})
	}
	// UpgradeTLS callers
	for _, fn := range c.P.PkgFuncs("nsqd") {
		for _, uc := range an.CallsTo(fn, upgrade) {
			c.Check(fn == identify, fn, "UpgradeTLS called from IDENTIFY only", uc.Pos(), "", "UpgradeTLS is called outside IDENTIFY")
		}
	}
	// subsequent I/O goes over the TLS connection: Reader/Writer re-created on tlsConn (C07.stack)
}

func c11http(c *an.Ctx) {
	serve := c.Fn("nsqd", "(*httpServer).ServeHTTP")
	main := c.Fn("nsqd", "(*NSQD).Main")
	newSrv := c.Fn("nsqd", "newHTTPServer")
	if serve == nil || main == nil || newSrv == nil {
		return
	}
	enF := c.P.Field("nsqd", "httpServer", "tlsEnabled")
	rqF := c.P.Field("nsqd", "httpServer", "tlsRequired")
	// router.ServeHTTP reachable only on edges where tlsEnabled || !tlsRequired
	var routerCalls []ssa.Instruction
	an.Instrs(serve, func(in ssa.Instruction) {
		if isInvokeOn(in, "Handler", "ServeHTTP", nil) {
			routerCalls = append(routerCalls, in)
		}
	})
	if len(routerCalls) == 0 {
		c.Bad(serve, "router behind the TLS gate", serve.Pos(), "ServeHTTP never reaches the router", nil)
	}
	for _, rc := range routerCalls {
		okEdge := func(facts []an.Fact) bool {
			for _, f := range facts {
				if fv, _ := an.LoadedField(f.V); fv == enF && f.True {
					return true
				}
				if fv, _ := an.LoadedField(f.V); fv == rqF && !f.True {
					return true
				}
			}
			return false
		}
		// per path: every way to the router passes an edge on which tlsEnabled is true or tlsRequired
		// is false; a gate computed into a boolean first (`allowed := enabled || !required`) is
		// judged by the operand the merge took on that path
		gate := func(e an.Edge, st *an.PathState) bool {
			fs := an.FactsOnEdge(e)
			for _, f := range an.FactsOnEdge(e) {
				v, truth := st.Selected(f.V), f.True
				for {
					if u, ok := v.(*ssa.UnOp); ok && u.Op == token.NOT {
						v, truth = st.Selected(u.X), !truth
						continue
					}
					break
				}
				if v != f.V {
					fs = append(fs, an.Fact{V: v, True: truth, If: f.If})
				}
			}
			return okEdge(fs)
		}
		rc := rc
		q := &an.PathQ{Fn: serve, StartEntry: true, Sink: func(in ssa.Instruction, _ *an.PathState) bool { return in == rc }, CutEdge: gate}
		_, found := q.Find()
		good := !found
		c.Check(good, serve, "router behind the TLS gate", rc.Pos(), "", "the router is reachable for a plaintext request although TLS is required")
	}
	// the refusing arm answers 403 and returns
	wh := false
	an.Instrs(serve, func(in ssa.Instruction) {
		if isInvokeOn(in, "ResponseWriter", "WriteHeader", nil) {
			ci := in.(ssa.CallInstruction)
			if k, isC := an.ConstInt(ci.Common().Args[0]); isC && k == 403 {
				wh = true
			}
		}
	})
	c.Check(wh, serve, "refusal is a 403", serve.Pos(), "", "the TLS-required refusal is not a 403")
	// wiring in Main
	tlsReqC := c.P.Const("nsqd", "TLSRequired")
	for _, nc := range an.CallsTo(main, newSrv) {
		en := an.Strip(nc.Common().Args[1])
		rq := an.Strip(nc.Common().Args[2])
		ek, eIsC := en.(*ssa.Const)
		if eIsC && ek.Value != nil && ek.Value.String() == "false" {
			// plaintext server: required iff opts.TLSRequired == TLSRequired (tcp-https exempt)
			good := false
			if b, ok := rq.(*ssa.BinOp); ok && b.Op == token.EQL && isOptsField(c, b.X, "nsqd", "TLSRequired") && tlsReqC != nil {
				want, _ := an.ConstInt(ssa.NewConst(tlsReqC.Val(), tlsReqC.Type()))
				if k, isC := an.ConstInt(b.Y); isC && k == want {
					good = true
				}
			}
			c.Check(good, main, "plaintext HTTP server requires TLS iff tls-required=true", nc.Pos(), "", "the plaintext HTTP server is not constructed with tlsRequired = (opts.TLSRequired == TLSRequired): either tcp-https no longer exempts HTTP, or required TLS is not enforced")
		} else {
			rk, rIsC := rq.(*ssa.Const)
			good := eIsC && rIsC && ek.Value.String() == "true" && rk.Value != nil && rk.Value.String() == "true"
			c.Check(good, main, "HTTPS server marked TLS-enabled", nc.Pos(), "", "the HTTPS server is not constructed with (tlsEnabled=true, tlsRequired=true)")
		}
	}
}

func c11auth(c *an.Ctx) {
	check := c.Fn("nsqd", "(*protocolV2).CheckAuth")
	getTopic := c.Fn("nsqd", "(*NSQD).GetTopic")
	getCh := c.Fn("nsqd", "(*Topic).GetChannel")
	add := c.Fn("nsqd", "(*Channel).AddClient")
	putM := c.Fn("nsqd", "(*Topic).PutMessage")
	putMs := c.Fn("nsqd", "(*Topic).PutMessages")
	if check == nil || getTopic == nil || getCh == nil || add == nil || putM == nil || putMs == nil {
		return
	}
	for _, cmd := range []string{"PUB", "MPUB", "DPUB", "SUB"} {
		fn := c.Fn("nsqd", "(*protocolV2)."+cmd)
		if fn == nil {
			continue
		}
		ccs := an.CallsTo(fn, check)
		if len(ccs) != 1 {
			c.Bad(fn, "CheckAuth", fn.Pos(), sprintf("expected exactly one CheckAuth call, found %d", len(ccs)), nil)
			continue
		}
		cc := ccs[0]
		succ, _ := an.ErrEdges(cc.Value())
		isEffect := func(in ssa.Instruction) bool {
			return isCallToOn(in, getTopic, nil) || isCallToOn(in, getCh, nil) || isCallToOn(in, add, nil) || isCallToOn(in, putM, nil) || isCallToOn(in, putMs, nil)
		}
		q := &an.PathQ{Fn: fn, StartEntry: true, Sink: func(in ssa.Instruction, _ *an.PathState) bool { return isEffect(in) },
			CutEdge: func(e an.Edge, _ *an.PathState) bool { return an.EdgeIn(e, succ) }}
		w, f := q.Find()
		if f || len(succ) == 0 {
			c.Bad(fn, "nothing created before authorisation", cc.Pos(), cmd+" can create a topic/channel or enqueue a message without CheckAuth having succeeded: a denied command leaves a trace", w)
		} else {
			c.OK(fn, "nothing created before authorisation", cc.Pos(), "")
		}
		// the error of CheckAuth is returned as is (it is already the documented fatal error)
		_, fail := an.ErrEdges(cc.Value())
		okRet := len(fail) > 0
		qf := &an.PathQ{Fn: fn, StartEdges: fail, Sink: func(in ssa.Instruction, _ *an.PathState) bool {
			r, ok := in.(*ssa.Return)
			if !ok {
				return false
			}
			e := errOperand(r)
			return e == nil || !an.OriginsAll(e, func(o ssa.Value) bool { return o == cc.Value() })
		}}
		if _, bad := qf.Find(); bad {
			okRet = false
		}
		c.Check(okRet, fn, "denial is returned to the client", cc.Pos(), "", "a CheckAuth failure is not returned as the command's error")
		// same values
		topicArg, chanArg := arg(cc, 2), arg(cc, 3)
		for _, gc := range an.CallsTo(fn, getTopic) {
			c.Check(an.SameValue(arg(gc, 0), topicArg), fn, "authorised topic is the topic used", gc.Pos(), "", "the topic passed to GetTopic is not the value that CheckAuth authorised")
		}
		if cmd == "SUB" {
			for _, gc := range an.CallsTo(fn, getCh) {
				c.Check(an.SameValue(arg(gc, 0), chanArg), fn, "authorised channel is the channel used", gc.Pos(), "", "the channel passed to GetChannel is not the value that CheckAuth authorised")
			}
			s, isC := an.ConstString(chanArg)
			c.Check(!(isC && s == ""), fn, "SUB authorises a channel", cc.Pos(), "", "SUB checks authorisation with an empty channel: it is evaluated as a publish permission")
		} else {
			s, isC := an.ConstString(chanArg)
			c.Check(isC && s == "", fn, "publish authorises with the empty channel", cc.Pos(), "", "a publish command does not pass the empty channel to CheckAuth (the empty channel selects the publish permission)")
		}
		cmdName, _ := an.ConstString(arg(cc, 1))
		c.Check(cmdName == cmd, fn, "CheckAuth names the command", cc.Pos(), "", "CheckAuth is told the command is "+cmdName)
	}
}

func c11check(c *an.Ctx) {
	check := c.Fn("nsqd", "(*protocolV2).CheckAuth")
	isAuthEnabled := c.Fn("nsqd", "(*NSQD).IsAuthEnabled")
	hasAuth := c.Fn("nsqd", "(*clientV2).HasAuthorizations")
	isAuthorized := c.Fn("nsqd", "(*clientV2).IsAuthorized")
	queryAuthd := c.Fn("nsqd", "(*clientV2).QueryAuthd")
	fatal := c.P.Func("internal/protocol", "NewFatalClientErr")
	if check == nil || isAuthEnabled == nil || hasAuth == nil || isAuthorized == nil || queryAuthd == nil || fatal == nil {
		return
	}
	// CheckAuth: nil return only via !IsAuthEnabled edge or IsAuthorized (true, nil) with HasAuthorizations true
	var disabled, authd, okTrue, errNil []an.Edge
	for _, ec := range an.CallsTo(check, isAuthEnabled) {
		for _, t := range an.BoolTests(ec.Value()) {
			disabled = append(disabled, t.False)
		}
	}
	for _, hc := range an.CallsTo(check, hasAuth) {
		for _, t := range an.BoolTests(hc.Value()) {
			authd = append(authd, t.True)
		}
	}
	for _, ac := range an.CallsTo(check, isAuthorized) {
		for _, okv := range an.ResultN(ac.Value(), 0) {
			for _, t := range an.BoolTests(okv) {
				okTrue = append(okTrue, t.True)
			}
		}
		s, _ := an.ErrEdges(ac.Value())
		errNil = append(errNil, s...)
		// topic/channel forwarded
		c.Check(isParam(arg(ac, 0), check, 3) && isParam(arg(ac, 1), check, 4), check, "IsAuthorized gets the command's topic and channel", ac.Pos(), "", "CheckAuth does not forward its topic/channel to IsAuthorized")
	}
	for _, set := range []struct {
		name  string
		edges []an.Edge
	}{{"client has authorisations", authd}, {"IsAuthorized reported no error", errNil}, {"IsAuthorized said yes", okTrue}} {
		q := &an.PathQ{Fn: check, StartEntry: true, Sink: sinkSuccessReturn,
			CutEdge: func(e an.Edge, _ *an.PathState) bool { return an.EdgeIn(e, disabled) || an.EdgeIn(e, set.edges) }}
		w, f := q.Find()
		if f || len(set.edges) == 0 {
			c.Bad(check, "grant requires: "+set.name, check.Pos(), "with auth enabled CheckAuth can succeed without: "+set.name, w)
		} else {
			c.OK(check, "grant requires: "+set.name, check.Pos(), "")
		}
	}
	// refusals are fatal with documented codes
	okCodes := true
	why := ""
	for _, r := range an.Returns(check) {
		if isSuccessReturn(r) {
			continue
		}
		e := errOperand(r)
		call := an.CallResultOf(e, fatal)
		if call == nil {
			okCodes, why = false, "a refusal is not a FatalClientErr"
			continue
		}
		code, _ := an.ConstString(call.Call.Args[1])
		if code != "E_AUTH_FIRST" && code != "E_AUTH_FAILED" && code != "E_UNAUTHORIZED" {
			okCodes, why = false, "unexpected code "+code
		}
	}
	c.Check(okCodes, check, "refusals are the documented fatal errors", check.Pos(), "", why)
	// IsAuthorized: IsAllowed on a possibly expired state is preceded by a successful QueryAuthd
	{
		fn := isAuthorized
		isExpired := c.P.Func("internal/auth", "(*State).IsExpired")
		isAllowed := c.P.Func("internal/auth", "(*State).IsAllowed")
		if isExpired == nil || isAllowed == nil {
			c.Anchor("internal/auth.State.IsExpired/IsAllowed")
		} else {
			var fresh, requery []an.Edge
			for _, ec := range an.CallsTo(fn, isExpired) {
				for _, t := range an.BoolTests(ec.Value()) {
					fresh = append(fresh, t.False)
				}
			}
			for _, qc := range an.CallsTo(fn, queryAuthd) {
				s, _ := an.ErrEdgesPhi(qc.Value())
				requery = append(requery, s...)
			}
			q := &an.PathQ{Fn: fn, StartEntry: true, Sink: func(in ssa.Instruction, _ *an.PathState) bool { return isCallToOn(in, isAllowed, nil) },
				CutEdge: func(e an.Edge, _ *an.PathState) bool { return an.EdgeIn(e, fresh) || an.EdgeIn(e, requery) }}
			w, f := q.Find()
			if f || len(fresh) == 0 {
				c.Bad(fn, "expired grants are re-fetched before use", fn.Pos(), "IsAllowed can be evaluated on an expired authorisation without a successful re-query of the auth server", w)
			} else {
				c.OK(fn, "expired grants are re-fetched before use", fn.Pos(), "")
			}
			// true is returned only when IsAllowed said so
			var allowed []an.Edge
			var verdicts []ssa.Value
			authF := c.P.Field("nsqd", "clientV2", "AuthState")
			for _, ac := range an.CallsTo(fn, isAllowed) {
				verdicts = append(verdicts, ac.Value())
				// the grant consulted is the connection's current one: read after any re-query, not a copy taken before it
				cur := false
				if ld, ok := an.Strip(recvArg(ac)).(*ssa.UnOp); ok && ld.Op == token.MUL {
					if fa, ok := ld.X.(*ssa.FieldAddr); ok && an.FieldOf(fa) == authF && isParam(fa.X, fn, 0) {
						qs := &an.PathQ{Fn: fn, StartAfter: []ssa.Instruction{ld}, Sink: func(in ssa.Instruction, _ *an.PathState) bool { return isCallToOn(in, queryAuthd, nil) }}
						if _, stale := qs.Find(); !stale {
							cur = true
						}
					}
				}
				c.Check(cur, fn, "IsAllowed consults the state current after the re-query", ac.Pos(), "", "IsAllowed is evaluated on a value of c.AuthState read before QueryAuthd() may replace it: the first command after the TTL expired is judged by the old grant although the auth server was asked again (and may have revoked it)")
				for _, t := range an.BoolTests(ac.Value()) {
					allowed = append(allowed, t.True)
				}
				c.Check(isParam(arg(ac, 0), fn, 1) && isParam(arg(ac, 1), fn, 2), fn, "IsAllowed gets topic and channel", ac.Pos(), "", "IsAuthorized does not forward (topic, channel) in that order")
			}
			q2 := &an.PathQ{Fn: fn, StartEntry: true, Marked: verdicts, AllAlias: true, AllConsts: true, FullOnly: true,
				Sink: func(in ssa.Instruction, st *an.PathState) bool {
					r, ok := in.(*ssa.Return)
					if !ok {
						return false
					}
					v := an.Resolve(r.Results[0])
					// a single exit: the value the merged result variable took on this path
					if k, known := st.ConstOf(r.Results[0]); known {
						v = k
					} else if sel := st.Selected(r.Results[0]); sel != nil {
						v = an.Resolve(sel)
					}
					if st.Marked(v) {
						return false // `return state.IsAllowed(topic, channel), nil`: the verdict itself
					}
					k, isC := v.(*ssa.Const)
					return !(isC && k.Value != nil && k.Value.String() == "false")
				},
				CutEdge: func(e an.Edge, _ *an.PathState) bool { return an.EdgeIn(e, allowed) }}
			w, f = q2.Find()
			if f {
				c.Bad(fn, "authorised only if the grant allows it", fn.Pos(), "IsAuthorized can answer true without IsAllowed(topic, channel) having returned true", w)
			} else {
				c.OK(fn, "authorised only if the grant allows it", fn.Pos(), "")
			}
		}
	}
	// QueryAuthd stores AuthState only on success of QueryAnyAuthd
	{
		fn := queryAuthd
		qa := c.P.Func("internal/auth", "QueryAnyAuthd")
		asF := c.P.Field("nsqd", "clientV2", "AuthState")
		if qa != nil {
			var succ []an.Edge
			for _, qc := range an.CallsTo(fn, qa) {
				s, _ := an.ErrEdges(qc.Value())
				succ = append(succ, s...)
			}
			q := &an.PathQ{Fn: fn, StartEntry: true, Sink: func(in ssa.Instruction, _ *an.PathState) bool {
				st, ok := in.(*ssa.Store)
				if !ok {
					return false
				}
				fa, ok := st.Addr.(*ssa.FieldAddr)
				return ok && an.FieldOf(fa) == asF
			}, CutEdge: func(e an.Edge, _ *an.PathState) bool { return an.EdgeIn(e, succ) }}
			_, f := q.Find()
			c.Check(!f && len(succ) > 0, fn, "auth state replaced only by a successful answer", fn.Pos(), "", "client.AuthState can be overwritten without a successful auth-server answer")
		}
	}
	// Authorization.IsAllowed: permission by channel emptiness, topic regex and a channel regex must match
	if fn := c.Fn("internal/auth", "(*Authorization).IsAllowed"); fn != nil {
		hasPerm := c.P.Func("internal/auth", "(*Authorization).HasPermission")
		perms := map[string]bool{}
		if hasPerm != nil {
			nonEmptyIn := func(cmps []an.Cmp) (nonEmpty, empty bool) {
				for _, cmp := range cmps {
					if isParam(cmp.X, fn, 2) {
						if s, ok := an.ConstString(cmp.Y); ok && s == "" {
							if cmp.Op == token.NEQ {
								nonEmpty = true
							}
							if cmp.Op == token.EQL {
								empty = true
							}
						}
					}
				}
				return
			}
			for _, hc := range an.CallsTo(fn, hasPerm) {
				// the permission asked for: a constant at the call, or a variable set to a constant on each branch
				type leaf struct {
					p    string
					cmps []an.Cmp
				}
				var leaves []leaf
				a := arg(hc, 0)
				if phi, ok := a.(*ssa.Phi); ok {
					for i, e := range phi.Edges {
						if p, ok := an.ConstString(e); ok {
							leaves = append(leaves, leaf{p, an.CmpsOnEdge(an.Edge{From: phi.Block().Preds[i], To: phi.Block()})})
						}
					}
				} else if p, ok := an.ConstString(a); ok {
					leaves = append(leaves, leaf{p, an.CmpsAt(hc.Block())})
				}
				for _, l := range leaves {
					ne, em := nonEmptyIn(l.cmps)
					if (l.p == "subscribe" && ne) || (l.p == "publish" && (em || !ne)) {
						perms[l.p] = true
					} else {
						perms["!"+l.p] = true
					}
				}
			}
			if perms["!subscribe"] || perms["!publish"] {
				perms["subscribe"], perms["publish"] = false, false
			}
		}
		c.Check(perms["subscribe"] && perms["publish"], fn, "permission selected by channel emptiness", fn.Pos(), "", "IsAllowed does not require \"subscribe\" for a non-empty channel and \"publish\" otherwise")
		// true only after topic regex matched and a channel regex matched
		matches := matchCalls(fn, 0)
		goodRe := len(matches) >= 2
		for _, mc := range matches {
			if !trueOnlyPast(fn, mc) {
				goodRe = false
			}
		}
		c.Check(goodRe, fn, "grant requires topic and channel pattern match", fn.Pos(), "", "IsAllowed can return true without both the topic pattern and a channel pattern matching")
	}
	// State.IsAllowed: true only if some authorization allows
	if fn := c.Fn("internal/auth", "(*State).IsAllowed"); fn != nil {
		ia := c.P.Func("internal/auth", "(*Authorization).IsAllowed")
		var tr []an.Edge
		for _, ac := range an.CallsTo(fn, ia) {
			for _, t := range an.BoolTests(ac.Value()) {
				tr = append(tr, t.True)
			}
		}
		ncalls := len(an.CallsTo(fn, ia))
		q := &an.PathQ{Fn: fn, StartEntry: true, AllAlias: true, AllConsts: true, FullOnly: true, Sink: func(in ssa.Instruction, st *an.PathState) bool {
			r, ok := in.(*ssa.Return)
			if !ok {
				return false
			}
			isFalse := func(k *ssa.Const) bool { return k != nil && k.Value != nil && k.Value.String() == "false" }
			v := an.Resolve(r.Results[0])
			if k, isC := v.(*ssa.Const); isC && isFalse(k) {
				return false
			}
			if k, known := st.ConstOf(v); known && isFalse(k) {
				return false
			}
			// `return allowed` where allowed is what the last grant asked answered
			if call, isCall := an.Resolve(st.Selected(v)).(*ssa.Call); isCall && an.IsCallTo(call, ia) {
				return false
			}
			return true
		}, CutEdge: func(e an.Edge, _ *an.PathState) bool { return an.EdgeIn(e, tr) }}
		_, f := q.Find()
		c.Check(!f && ncalls > 0, fn, "state allows only what one of its grants allows", fn.Pos(), "", "State.IsAllowed can return true without any Authorization allowing the topic/channel")
	}
}

// matchCalls: the calls in fn that say "this text matches this pattern": regexp's MatchString, or a helper of the same
// package that returns true only past such a call (a predicate extracted from the grant check).
func matchCalls(fn *ssa.Function, depth int) []*ssa.Call {
	var out []*ssa.Call
	an.Instrs(fn, func(in ssa.Instruction) {
		call, ok := in.(*ssa.Call)
		if !ok {
			return
		}
		if an.StdCallee(call, "regexp", "(*Regexp).MatchString") {
			out = append(out, call)
			return
		}
		h := an.StaticCallee(call)
		if h == nil || h == fn || h.Pkg != fn.Pkg || h.Blocks == nil || depth >= 2 {
			return
		}
		if res := h.Signature.Results(); res.Len() != 1 || !types.Identical(res.At(0).Type(), types.Typ[types.Bool]) {
			return
		}
		inner := matchCalls(h, depth+1)
		if len(inner) == 0 {
			return
		}
		// true only past one of its own match calls
		var tr []an.Edge
		for _, mc := range inner {
			for _, t := range an.BoolTests(mc) {
				tr = append(tr, t.True)
			}
		}
		q := &an.PathQ{Fn: h, StartEntry: true, FullOnly: true, AllConsts: true, AllAlias: true, Sink: notFalseReturnBut(inner), CutEdge: func(e an.Edge, _ *an.PathState) bool { return an.EdgeIn(e, tr) }}
		if _, f := q.Find(); !f {
			out = append(out, call)
		}
	})
	return out
}

func notFalseReturn(in ssa.Instruction, st *an.PathState) bool {
	return notFalseReturnBut(nil)(in, st)
}

// notFalseReturnBut: a return whose value, on this path, is neither the constant false nor the verdict of one of the given
// calls themselves (`return a && match(b)` returns match's own answer).
func notFalseReturnBut(verdicts []*ssa.Call) func(in ssa.Instruction, st *an.PathState) bool {
	return func(in ssa.Instruction, st *an.PathState) bool {
		r, ok := in.(*ssa.Return)
		if !ok || len(r.Results) == 0 {
			return false
		}
		v := an.Resolve(r.Results[0])
		if st != nil {
			// the value the result took on this path, through merges of merges (a flag carried round a loop and out of it)
			cur := r.Results[0]
			for i := 0; i < 4; i++ {
				if k, known := st.ConstOf(cur); known {
					v = k
					break
				}
				sel := st.Selected(cur)
				if sel == nil {
					break
				}
				v = an.Resolve(sel)
				cur = sel
			}
		}
		if k, isC := v.(*ssa.Const); isC && k.Value != nil && k.Value.String() == "false" {
			return false
		}
		for _, mc := range verdicts {
			if an.Strip(v) == ssa.Value(mc) {
				return false
			}
		}
		if os.Getenv("VERIF_DBG11") != "" {
			fmt.Fprintln(os.Stderr, "sink value", v.Name(), v.String(), "of", r.Results[0].Name())
		}
		return true
	}
}

// trueOnlyPast: fn returns something other than false only on paths that took the true edge of mc (or returns mc's own
// verdict).
func trueOnlyPast(fn *ssa.Function, mc *ssa.Call) bool {
	var tr []an.Edge
	for _, t := range an.BoolTests(mc) {
		tr = append(tr, t.True)
	}
	q := &an.PathQ{Fn: fn, StartEntry: true, FullOnly: true, AllConsts: true, AllAlias: true, Sink: notFalseReturnBut([]*ssa.Call{mc}), CutEdge: func(e an.Edge, ps *an.PathState) bool {
		if an.EdgeIn(e, tr) {
			return true
		}
		// the verdict carried in a flag (`allowed = re.MatchString(…)` … `if allowed`): the branch on the flag decides it
		for _, f := range ps.FactsOnEdge(e) {
			if f.True && an.Strip(f.V) == ssa.Value(mc) {
				return true
			}
		}
		return false
	}}
	w, f := q.Find()
	if f && os.Getenv("VERIF_DBG11") != "" {
		fmt.Fprintln(os.Stderr, "trueOnlyPast", mc.String(), "witness:", fmt.Sprint(w))
	}
	return !f
}
