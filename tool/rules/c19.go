package rules

import (
	"go/constant"
	"go/token"
	"go/types"
	"strings"

	"golang.org/x/tools/go/ssa"

	"nsqverif/an"
)

func init() {
	Props["C19"] = PropInfo{
		Explanation: "Decides the ordering and the no-clobber discipline: (finish) a message is finished only after the Sync() that follows its write succeeded, auto-response is disabled before the message is handed to the writer goroutine, and Finish is called nowhere else; " +
			"(sync) Sync returns nil only after out.Sync() succeeded, preceded in gzip mode by a successful close of the gzip member; Close closes the gzip member, fsyncs and closes before any move; " +
			"(noclobber) the tool never calls rename/create/truncate: files are opened with O_EXCL or O_APPEND and moved with link+remove, and both revision loops retry only on already-exists.",
		NotDecided:  "gzip member validity, strftime roll-over, what a SIGKILL between write and fsync leaves (the rule is exactly that FIN comes after fsync).",
		Assumptions: []string{"os.File.Sync is fsync; link(2) fails with EEXIST; go-nsq FINs only via Message.Finish when auto-response is disabled"},
	}
	reg("C19.finish", "PATH", "router: Finish only after a successful Sync that follows the write; HandleMessage disables auto-response first; no other Finish", 5, c19finish)
	reg("C19.sync", "PATH", "Sync: nil only after out.Sync (after gzip Close in gzip mode); Close: gzip close -> fsync -> close -> move", 4, c19sync)
	reg("C19.noclobber", "CALLS+GUARD", "no rename/create/truncate; OpenFile with O_EXCL or O_APPEND; exclusiveRename = link then remove; revision loops retry only on exists", 4, c19noclobber)
}

const toFile = "apps/nsq_to_file"

func c19finish(c *an.Ctx) {
	router := c.Fn(toFile, "(*FileLogger).router")
	syncFn := c.Fn(toFile, "(*FileLogger).Sync")
	we := fileWriteEffect(c)
	handle := c.Fn(toFile, "(*FileLogger).HandleMessage")
	finish := c.P.Func("github.com/nsqio/go-nsq", "(*Message).Finish")
	disable := c.P.Func("github.com/nsqio/go-nsq", "(*Message).DisableAutoResponse")
	if router == nil || syncFn == nil || handle == nil || finish == nil || disable == nil {
		if finish == nil || disable == nil {
			c.Anchor("go-nsq.Message.Finish/DisableAutoResponse")
		}
		return
	}
	var syncSucc []an.Edge
	for _, sc := range an.CallsTo(router, syncFn) {
		s, _ := an.ErrEdges(sc.Value())
		syncSucc = append(syncSucc, s...)
	}
	fins := an.CallsTo(router, finish)
	if len(fins) == 0 {
		c.Bad(router, "Finish after Sync", router.Pos(), "router never finishes messages", nil)
	}
	for _, fc := range fins {
		// (a) from entry: no Finish without a successful Sync
		q := &an.PathQ{Fn: router, StartEntry: true, Sink: func(in ssa.Instruction, _ *an.PathState) bool { return in == fc.(ssa.Instruction) },
			CutEdge: func(e an.Edge, _ *an.PathState) bool { return an.EdgeIn(e, syncSucc) }}
		w, f := q.Find()
		// (b) from after every write: Finish only after a *later* successful Sync
		var writes []ssa.Instruction
		for _, wc := range we.callsIn(router) {
			writes = append(writes, wc.(ssa.Instruction))
		}
		q2 := &an.PathQ{Fn: router, StartAfter: writes, Sink: q.Sink, CutEdge: q.CutEdge}
		w2, f2 := q2.Find()
		if f || f2 || len(syncSucc) == 0 {
			if !f {
				w = w2
			}
			c.Bad(router, "Finish after Sync", fc.Pos(), "a message can be finished without a successful Sync() after its bytes were written: a crash then loses a message the channel no longer owes", w)
		} else {
			c.OK(router, "Finish after Sync", fc.Pos(), "")
		}
	}
	// write failures end the process (never skip a message silently)
	if len(we.callsIn(router)) == 0 {
		c.Bad(router, "write failure is fatal", router.Pos(), "the router writes nothing to the output file", nil)
	}
	for _, wc := range we.callsIn(router) {
		_, fail := an.ErrEdges(wc.Value())
		q := &an.PathQ{Fn: router, StartEdges: fail, Sink: func(in ssa.Instruction, _ *an.PathState) bool {
			return isCallToOn(in, finish, nil) || we.is(in) || isCallToOn(in, syncFn, nil)
		}}
		w, f := q.Find()
		if f || len(fail) == 0 {
			c.Bad(router, "write failure is fatal", wc.Pos(), "after a failed write the router carries on (the message would later be finished without being on disk)", w)
		} else {
			c.OK(router, "write failure is fatal", wc.Pos(), "")
		}
	}
	// every message received is written (body and newline) before it is recorded for finishing
	logF := c.P.Field(toFile, "FileLogger", "logChan")
	for _, sel := range an.Selects(router) {
		for _, st := range an.SelectStates(sel) {
			if st.State.Dir != types.RecvOnly || !isLoadOfField(st.State.Chan, logF) || st.Recv == nil {
				continue
			}
			bodyWritten := false
			for _, wc := range we.callsIn(router) {
				_, payload := we.at(wc.(ssa.Instruction))
				if payload == nil {
					continue
				}
				if f, base := an.LoadedField(an.Strip(payload)); f != nil && f.Name() == "Body" && an.SameValue(base, st.Recv) {
					bodyWritten = true
				}
			}
			c.Check(bodyWritten, router, "received message body is written", st.Recv.Pos(), "", "the router does not write the received message's Body")
		}
	}
	// HandleMessage: DisableAutoResponse precedes the hand-off
	q := &an.PathQ{Fn: handle, StartEntry: true, Sink: func(in ssa.Instruction, _ *an.PathState) bool {
		s, ok := in.(*ssa.Send)
		return ok && isLoadOfField(s.Chan, logF)
	}, Cut: func(in ssa.Instruction, _ *an.PathState) bool {
		return isCallToOn(in, disable, func(v ssa.Value) bool { return isParam(v, handle, 1) })
	}}
	w, f := q.Find()
	if f {
		c.Bad(handle, "auto-response disabled before hand-off", handle.Pos(), "the message is handed to the writer before auto-response is disabled: returning nil lets go-nsq FIN it before it is on disk", w)
	} else {
		c.OK(handle, "auto-response disabled before hand-off", handle.Pos(), "")
	}
	// no other Finish in the package
	for _, fn := range c.P.PkgFuncs(toFile) {
		for _, fc := range an.CallsTo(fn, finish) {
			c.Check(fn == router, fn, "Finish only in the router", fc.Pos(), "", "Message.Finish is called outside the router's post-sync loop")
		}
	}
}

func c19sync(c *an.Ctx) {
	syncFn := c.Fn(toFile, "(*FileLogger).Sync")
	closeFn := c.Fn(toFile, "(*FileLogger).Close")
	if syncFn == nil || closeFn == nil {
		return
	}
	gzF := c.P.Field(toFile, "FileLogger", "gzipWriter")
	isOutSync := func(in ssa.Instruction) bool { return isStdCall(in, "os", "(*File).Sync") }
	isGzClose := func(in ssa.Instruction) bool { return isStdCall(in, "compress/gzip", "(*Writer).Close") }
	// Sync: success returns carry out.Sync()'s verdict
	good := true
	why := ""
	var fsyncs []ssa.Value
	an.Instrs(syncFn, func(in ssa.Instruction) {
		if isOutSync(in) {
			fsyncs = append(fsyncs, in.(ssa.Value))
		}
	})
	if len(fsyncs) == 0 {
		good, why = false, "Sync never fsyncs the file"
	}
	for _, r := range an.Returns(syncFn) {
		if !isSuccessReturn(r) {
			continue
		}
		e := errOperand(r)
		for _, o := range an.Origins(e) {
			isFsync := false
			for _, fs := range fsyncs {
				if o == fs {
					isFsync = true
				}
			}
			if !isFsync {
				good, why = false, "a possibly-nil return value does not come from out.Sync() ("+o.String()+")"
			}
		}
	}
	c.Check(good, syncFn, "nil only after fsync succeeded", syncFn.Pos(), "", "FileLogger.Sync can return nil without a successful fsync: "+why)
	// gzip mode: gzip Close success precedes the fsync
	var gzNonNil []an.Edge
	an.Instrs(syncFn, func(in ssa.Instruction) {
		b, ok := in.(*ssa.BinOp)
		if ok && isLoadOfField(b.X, gzF) && an.IsNilConst(b.Y) {
			for _, t := range an.NilTests(b.X) {
				if t.If.Cond == ssa.Value(b) {
					gzNonNil = append(gzNonNil, t.NonNil)
				}
			}
		}
	})
	var gzSucc []an.Edge
	an.Instrs(syncFn, func(in ssa.Instruction) {
		if isGzClose(in) {
			s, _ := an.ErrEdges(in.(ssa.Value))
			gzSucc = append(gzSucc, s...)
		}
	})
	q := &an.PathQ{Fn: syncFn, StartEdges: gzNonNil, Sink: func(in ssa.Instruction, _ *an.PathState) bool { return isOutSync(in) || isSuccessReturn(in) },
		CutEdge: func(e an.Edge, _ *an.PathState) bool { return an.EdgeIn(e, gzSucc) }}
	w, f := q.Find()
	if f || len(gzNonNil) == 0 || len(gzSucc) == 0 {
		c.Bad(syncFn, "gzip member closed before fsync", syncFn.Pos(), "in gzip mode the file can be fsynced (and messages finished) without the current gzip member having been closed successfully: finished messages sit in an undecodable tail", w)
	} else {
		c.OK(syncFn, "gzip member closed before fsync", syncFn.Pos(), "")
	}
	// a fresh gzip member is started afterwards on the same file
	fresh := false
	an.Instrs(syncFn, func(in ssa.Instruction) {
		if call, ok := in.(*ssa.Call); ok && (an.StdCallee(call, "compress/gzip", "NewWriterLevel") || an.StdCallee(call, "compress/gzip", "NewWriter")) {
			fresh = true
		}
	})
	c.Check(fresh, syncFn, "new gzip member after a sync point", syncFn.Pos(), "", "after closing the gzip member Sync does not start a new one: later writes go to a closed writer")
	// Close: gzip close -> out.Sync -> out.Close -> rename, every failure fatal
	exRename := c.P.Func(toFile, "exclusiveRename")
	steps := []step{
		{"out.Sync", isOutSync},
		{"out.Close", func(in ssa.Instruction) bool { return isStdCall(in, "os", "(*File).Close") }},
	}
	// Close returns early when f.out == nil; start from the non-nil edge
	outF := c.P.Field(toFile, "FileLogger", "out")
	var open []an.Edge
	an.Instrs(closeFn, func(in ssa.Instruction) {
		b, ok := in.(*ssa.BinOp)
		if ok && isLoadOfField(b.X, outF) && an.IsNilConst(b.Y) {
			for _, t := range an.NilTests(b.X) {
				if t.If.Cond == ssa.Value(b) {
					open = append(open, t.NonNil)
				}
			}
		}
	})
	ok, missing, w := seqFromEdges(closeFn, open, nil, an.IsReturn, steps)
	var gzNN []an.Edge
	an.Instrs(closeFn, func(in ssa.Instruction) {
		b, okb := in.(*ssa.BinOp)
		if okb && isLoadOfField(b.X, gzF) && an.IsNilConst(b.Y) {
			for _, t := range an.NilTests(b.X) {
				if t.If.Cond == ssa.Value(b) {
					gzNN = append(gzNN, t.NonNil)
				}
			}
		}
	})
	q2 := &an.PathQ{Fn: closeFn, StartEdges: gzNN, Sink: func(in ssa.Instruction, _ *an.PathState) bool { return isOutSync(in) }, Cut: func(in ssa.Instruction, _ *an.PathState) bool { return isGzClose(in) }}
	_, f2 := q2.Find()
	// no rename before the close
	q3 := &an.PathQ{Fn: closeFn, StartEdges: open, Sink: func(in ssa.Instruction, _ *an.PathState) bool {
		return exRename != nil && isCallToOn(in, exRename, nil)
	},
		Cut: func(in ssa.Instruction, _ *an.PathState) bool { return isStdCall(in, "os", "(*File).Close") }}
	_, f3 := q3.Find()
	if ok && !f2 && !f3 && len(gzNN) > 0 {
		c.OK(closeFn, "close sequence: gzip close -> fsync -> close -> move", closeFn.Pos(), "")
	} else {
		c.Bad(closeFn, "close sequence: gzip close -> fsync -> close -> move", closeFn.Pos(), sprintf("Close does not perform gzip close, fsync, close before moving the file (missing: %s; gzip skipped=%v; moved before close=%v)", missing, f2, f3), w)
	}
}

// constInts evaluates an integer expression built from constants, | + and phis to its possible values.
func constInts(v ssa.Value, depth int) ([]int64, bool) {
	if depth > 6 {
		return nil, false
	}
	switch x := v.(type) {
	case *ssa.Const:
		if x.Value != nil && x.Value.Kind() == constant.Int {
			k, ok := constant.Int64Val(x.Value)
			return []int64{k}, ok
		}
	case *ssa.Convert:
		return constInts(x.X, depth+1)
	case *ssa.BinOp:
		a, ok1 := constInts(x.X, depth+1)
		b, ok2 := constInts(x.Y, depth+1)
		if !ok1 || !ok2 {
			return nil, false
		}
		var out []int64
		for _, p := range a {
			for _, q := range b {
				switch x.Op {
				case token.OR:
					out = append(out, p|q)
				case token.ADD:
					out = append(out, p+q)
				case token.AND:
					out = append(out, p&q)
				default:
					return nil, false
				}
			}
		}
		return out, true
	case *ssa.Phi:
		var out []int64
		for _, e := range x.Edges {
			vs, ok := constInts(e, depth+1)
			if !ok {
				return nil, false
			}
			out = append(out, vs...)
		}
		return out, true
	}
	return nil, false
}

func c19noclobber(c *an.Ctx) {
	fns := c.P.PkgFuncs(toFile)
	if len(fns) == 0 {
		c.Anchor("package " + toFile)
		return
	}
	const (
		oAppend = 0x400
		oExcl   = 0x80
		oTrunc  = 0x200
	)
	nOpen := 0
	for _, fn := range fns {
		an.Instrs(fn, func(in ssa.Instruction) {
			call, ok := in.(*ssa.Call)
			if !ok {
				return
			}
			for _, n := range []string{"Rename", "Create", "WriteFile", "Truncate", "RemoveAll"} {
				if an.StdCallee(call, "os", n) {
					c.Bad(fn, "no clobbering file call", call.Pos(), "os."+n+" replaces an existing file without notice: rotation/hand-off could overwrite finished data", nil)
				}
			}
			if an.StdCallee(call, "os", "OpenFile") {
				nOpen++
				vals, ok := constInts(call.Call.Args[1], 0)
				good := ok && len(vals) > 0
				for _, v := range vals {
					if v&oTrunc != 0 || (v&oExcl == 0 && v&oAppend == 0) {
						good = false
					}
				}
				if strings.HasPrefix(c.P.Config, "linux") {
					c.Check(good, fn, "OpenFile flags are O_EXCL or O_APPEND, never O_TRUNC", call.Pos(), "", sprintf("os.OpenFile is called with flags %v: an existing output file can be truncated or overwritten", vals))
				} else {
					c.OK(fn, "OpenFile flags are O_EXCL or O_APPEND, never O_TRUNC", call.Pos(), "flag values checked on linux only")
				}
			}
		})
	}
	if nOpen == 0 {
		c.Bad(nil, "OpenFile", token.NoPos, "nsq_to_file never opens an output file", nil)
	}
	// exclusiveRename = Link success -> Remove
	if fn := c.Fn(toFile, "exclusiveRename"); fn != nil {
		var linkSucc []an.Edge
		an.Instrs(fn, func(in ssa.Instruction) {
			if call, ok := in.(*ssa.Call); ok && an.StdCallee(call, "os", "Link") {
				s, _ := an.ErrEdges(call)
				linkSucc = append(linkSucc, s...)
			}
		})
		q := &an.PathQ{Fn: fn, StartEntry: true, Sink: func(in ssa.Instruction, ps *an.PathState) bool {
			return isStdCall(in, "os", "Remove") || sinkSuccessReturn(in, ps)
		},
			CutEdge: func(e an.Edge, _ *an.PathState) bool { return an.EdgeIn(e, linkSucc) }}
		w, f := q.Find()
		if f || len(linkSucc) == 0 {
			c.Bad(fn, "move = link (exclusive) then remove", fn.Pos(), "exclusiveRename removes the source or reports success without a successful os.Link (which fails if the destination exists)", w)
		} else {
			c.OK(fn, "move = link (exclusive) then remove", fn.Pos(), "")
		}
	}
	// revision loops: a `continue` (back edge) only under IsExist / Stat success / size rotation
	for _, name := range []string{"(*FileLogger).updateFile", "(*FileLogger).Close"} {
		fn := c.Fn(toFile, name)
		if fn == nil {
			continue
		}
		exRename := c.P.Func(toFile, "exclusiveRename")
		// after a failed open / rename, the next iteration is reached only on the IsExist-true edge
		var calls []ssa.Value
		an.Instrs(fn, func(in ssa.Instruction) {
			if call, ok := in.(*ssa.Call); ok {
				if an.StdCallee(call, "os", "OpenFile") || (exRename != nil && an.IsCallTo(call, exRename)) {
					calls = append(calls, call)
				}
			}
		})
		loops := an.NaturalLoops(fn)
		for _, cv := range calls {
			call := cv.(*ssa.Call)
			l := an.LoopContaining(loops, call.Block())
			if l == nil {
				continue // the optimistic first rename
			}
			_, fail := an.ErrEdges(call)
			var existsEdges []an.Edge
			an.Instrs(fn, func(in ssa.Instruction) {
				if ic, ok := in.(*ssa.Call); ok && an.StdCallee(ic, "os", "IsExist") {
					for _, t := range an.BoolTests(ic) {
						existsEdges = append(existsEdges, t.True)
					}
				}
			})
			q := &an.PathQ{Fn: fn, StartEdges: fail, Sink: an.IsReturn,
				SinkEdge: func(e an.Edge, _ *an.PathState) bool { return e.To == l.Header },
				CutEdge:  func(e an.Edge, _ *an.PathState) bool { return an.EdgeIn(e, existsEdges) }}
			w, f := q.Find()
			if f || len(fail) == 0 {
				c.Bad(fn, "retry next revision only when the name exists", call.Pos(), "after a failed open/move the loop continues (or the function carries on) for errors other than already-exists: data is written to / moved over an unexpected file, or the error is swallowed", w)
			} else {
				c.OK(fn, "retry next revision only when the name exists", call.Pos(), "")
			}
		}
	}
}

// fileWriteEffect: "bytes are written to the logger's current output" – an invoke of Write on the value of FileLogger.writer,
// or a call of a function of the package that does that on every path (FileLogger.Write on the pinned tree). The object is
// the byte slice written.
func fileWriteEffect(c *an.Ctx) *effect {
	writerF := c.P.Field(toFile, "FileLogger", "writer")
	return newEffect(c, toFile, func(in ssa.Instruction) (bool, ssa.Value) {
		call, ok := in.(*ssa.Call)
		if !ok || !call.Call.IsInvoke() || call.Call.Method.Name() != "Write" || len(call.Call.Args) != 1 {
			return false, nil
		}
		if writerF == nil || !isLoadOfField(call.Call.Value, writerF) {
			return false, nil
		}
		return true, call.Call.Args[0]
	})
}

// callsIn: the instructions of fn that perform the effect, in program order.
func (e *effect) callsIn(fn *ssa.Function) []ssa.CallInstruction {
	var out []ssa.CallInstruction
	an.Instrs(fn, func(in ssa.Instruction) {
		if ci, ok := in.(ssa.CallInstruction); ok && e.is(in) {
			out = append(out, ci)
		}
	})
	return out
}
