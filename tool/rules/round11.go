package rules

import (
	"go/token"
	"go/types"
	"strings"

	"golang.org/x/tools/go/ssa"

	"nsqverif/an"
)

// Rules added after the tenth round of independently seeded changes (DESIGN.md §11.23).
func init() {
	for id, extra := range map[string]string{
		"C03": " (pause) the HTTP pause endpoints change the flag and persist it.",
		"C05": " (pump) a message taken off a queue by the consumer pump is registered in flight; (snapshot) the topic pump learns its channels before it first waits for messages.",
		"C06": " (mainafterload) the daemon serves only after its metadata was loaded and written back.",
		"C08": " (deletecompletes) a delete that has emptied/closed an object goes on to unlink it.",
		"C10": " (peerset) the lookup loop's peers mirror the configured addresses.",
		"C11": " (grantsasgiven) the authorizations a connection is checked against are the ones the auth server returned.",
		"C12": " (getonce) the topic/channel registries insert only what was found absent under the same lock.",
		"C14": " (remoteaddr) a peer's remote address is what the connection says, not what the peer sent.",
		"C15": " (getonce) as C14.getonce; (sendresponse) a V1 response is its length followed by exactly its bytes.",
		"C16": " (reconnectcb) a lookup peer that reconnects announces itself again.",
		"C17": " (decorators) nothing reaches the upstream cluster ahead of a state-changing handler's own admin check.",
		"C19": " (notruncate) nsq_to_file never shortens a file.",
		"C20": " (alldest) to_nsq keeps every destination it was given.",
	} {
		p := Props[id]
		p.Explanation += extra
		Props[id] = p
	}
	reg("C03.pause", "PATH", "HTTP pause/unpause: Pause|UnPause then PersistMetadata before the success answer – a pause that is answered but not applied keeps delivering (shared with C06.pause)", 2, c06pause)
	reg("C05.pump", "PATH", "consumer pump: every acquired message is registered in flight before the next iteration – one that is not is in no container the exit flush walks (shared with C01.pump)", 5, c01pump)
	reg("C10.peerset", "ORIG", "lookupLoop's address list mirrors its peer list through reconfigurations: /config changes of the nsqlookupd addresses take effect exactly (shared with C16.peerset)", 4, c16peerset)
	reg("C12.getonce", "LOCK+GUARD", "GetTopic / getOrCreateChannel insert only what was found absent under the same write lock: two topics of one name would run two id generators' worth of messages into one disk queue (shared with C01.getonce)", 2, c01getonce)
	reg("C15.getonce", "LOCK+GUARD", "AddRegistration / AddProducer create a registration's producer map only after finding it absent under the same write lock (shared with C14.getonce)", 2, c14getonce)

	reg("C06.mainafterload", "PATH", "program.Start launches NSQD.Main only after LoadMetadata and PersistMetadata returned", 2, c06mainafterload)
	reg("C05.mainafterload", "PATH", "program.Start launches NSQD.Main only after LoadMetadata returned: a publish accepted before the topic's channels are restored is fanned out to none of them (shared with C06.mainafterload)", 2, c06mainafterload)
	reg("C05.snapshot", "PATH", "Topic.messagePump ranges over channelMap on every path from its start to the select that takes messages", 1, c05snapshot)
	reg("C08.deletecompletes", "PATH", "after Channel.Delete / Topic.Delete the registry entry is removed, and after Empty the backend is deleted, on every path", 4, c08deletecompletes)
	reg("C01.deletecompletes", "PATH", "a channel/topic whose Delete was called is unlinked on every path: a closed object left in the registry swallows what is published to it (shared with C08.deletecompletes)", 4, c08deletecompletes)
	reg("C11.grantsasgiven", "ORIG", "nothing stores into auth.State.Authorizations: the list is what the auth server's JSON decoded to", 1, c11grantsasgiven)
	reg("C14.remoteaddr", "PATH", "IDENTIFY stores the connection's address into PeerInfo.RemoteAddress after decoding the peer's JSON", 1, c14remoteaddr)
	reg("C15.sendresponse", "SHAPE", "SendResponse writes int32(len(data)) and then data itself", 1, c15sendresponse)
	reg("C14.sendresponse", "SHAPE", "SendResponse writes int32(len(data)) and then data itself: nsqd reads lookup answers in this framing (shared with C15.sendresponse)", 1, c15sendresponse)
	reg("C16.reconnectcb", "GUARD", "lookupPeer.Command decides on connectCallback from the same reading of the state that made it connect", 1, c16reconnectcb)
	reg("C17.decorators", "CALLS", "decorators of nsqadmin's state-changing routes do not call into clusterinfo ahead of the handler", 7, c17decorators)
	reg("C19.notruncate", "CALLS", "nsq_to_file calls no Truncate and opens no file with O_TRUNC", 1, c19notruncate)
	reg("C20.alldest", "PATH", "to_nsq: every address that got a producer is stored in the producer map before the loop goes on", 1, c20alldest)
}

// ---- C05.snapshot --------------------------------------------------------------------------------------------

// c05snapshot: the pump's local list of channels is built before the loop starts taking messages. If the first range over
// channelMap is skipped on some path (say, for a topic that starts paused), the pump fans out to no channel until the next
// channel update, and the messages it reads are in nobody's queue.
func c05snapshot(c *an.Ctx) {
	fn := c.Fn("nsqd", "(*Topic).messagePump")
	cm := c.P.Field("nsqd", "Topic", "channelMap")
	if fn == nil || cm == nil {
		if fn != nil {
			c.Anchor("nsqd.Topic.channelMap")
		}
		return
	}
	msgT := c.P.Named("nsqd", "Message")
	takesMessages := func(in ssa.Instruction, _ *an.PathState) bool {
		sel, ok := in.(*ssa.Select)
		if !ok {
			return false
		}
		for _, s := range sel.States {
			if s.Dir != types.RecvOnly {
				continue
			}
			ch, ok := s.Chan.Type().Underlying().(*types.Chan)
			if !ok {
				continue
			}
			if pt, ok := ch.Elem().(*types.Pointer); ok && msgT != nil && types.Identical(pt.Elem(), msgT) {
				return true
			}
		}
		return false
	}
	n := 0
	an.Instrs(fn, func(in ssa.Instruction) {
		if takesMessages(in, nil) {
			n++
		}
	})
	if n == 0 {
		c.Und(fn, "channels known before the first message", fn.Pos(), "no select receiving *Message found in the topic pump")
		return
	}
	ranges := func(in ssa.Instruction, _ *an.PathState) bool {
		r, ok := in.(*ssa.Range)
		if !ok {
			return false
		}
		f, _ := an.LoadedField(r.X)
		return f == cm
	}
	q := &an.PathQ{Fn: fn, StartEntry: true, Sink: takesMessages, Cut: ranges}
	w, found := q.Find()
	if found {
		c.Bad(fn, "channels known before the first message", fn.Pos(), "the topic pump can reach the select that takes messages without having ranged over channelMap: on that path its channel list is empty, and what it reads from the topic queue is copied to no channel", w)
	} else {
		c.OK(fn, "channels known before the first message", fn.Pos(), "")
	}
}

// ---- C08.deletecompletes -------------------------------------------------------------------------------------

func c08deletecompletes(c *an.Ctx) {
	type spec struct {
		fn, after string // function, callee after which ...
		mapField  [3]string
		backend   bool
		what      string
	}
	for _, sp := range []spec{
		{"(*Topic).DeleteExistingChannel", "(*Channel).Delete", [3]string{"nsqd", "Topic", "channelMap"}, false, "the channel was closed and its files removed but it stays in the topic's map: it refuses every later put, and a consumer that subscribes gets the dead channel"},
		{"(*NSQD).DeleteExistingTopic", "(*Topic).Delete", [3]string{"nsqd", "NSQD", "topicMap"}, false, "the topic was closed and its files removed but it stays in the daemon's map: every later publish to that name fails"},
		{"(*Channel).exit", "(*Channel).Empty", [3]string{}, true, "the channel's backend is neither deleted nor closed: its files stay on disk and reappear under a channel of the same name"},
		{"(*Topic).exit", "(*Topic).Empty", [3]string{}, true, "the topic's backend is neither deleted nor closed: its files stay on disk and reappear under a topic of the same name"},
	} {
		fn := c.Fn("nsqd", sp.fn)
		after := c.Fn("nsqd", sp.after)
		if fn == nil || after == nil {
			continue
		}
		var starts []ssa.Instruction
		for _, ci := range an.CallsTo(fn, after) {
			starts = append(starts, ci.(ssa.Instruction))
		}
		construct := "delete runs to completion after " + after.Name()
		if len(starts) == 0 {
			c.Und(fn, construct, fn.Pos(), sp.fn+" no longer calls "+sp.after)
			continue
		}
		var cut func(in ssa.Instruction, _ *an.PathState) bool
		if sp.backend {
			cut = func(in ssa.Instruction, _ *an.PathState) bool {
				ci, ok := in.(ssa.CallInstruction)
				if !ok {
					return false
				}
				return an.IsInvokeOf(ci, "BackendQueue", "Delete") || an.IsInvokeOf(ci, "BackendQueue", "Close")
			}
		} else {
			mf := c.P.Field(sp.mapField[0], sp.mapField[1], sp.mapField[2])
			if mf == nil {
				c.Anchor(strings.Join(sp.mapField[:], "."))
				continue
			}
			cut = func(in ssa.Instruction, _ *an.PathState) bool {
				call, ok := in.(*ssa.Call)
				if !ok {
					return false
				}
				bi, ok := call.Call.Value.(*ssa.Builtin)
				if !ok || bi.Name() != "delete" || len(call.Call.Args) == 0 {
					return false
				}
				f, _ := an.LoadedField(call.Call.Args[0])
				return f == mf
			}
		}
		q := &an.PathQ{Fn: fn, StartAfter: starts, Sink: an.IsReturn, Cut: cut}
		w, found := q.Find()
		if found {
			c.Bad(fn, construct, starts[0].Pos(), sp.fn+" can return after "+sp.after+" without finishing: "+sp.what, w)
		} else {
			c.OK(fn, construct, starts[0].Pos(), "")
		}
	}
}

// ---- C11.grantsasgiven ---------------------------------------------------------------------------------------

func c11grantsasgiven(c *an.Ctx) {
	f := c.P.Field("internal/auth", "State", "Authorizations")
	q := c.Fn("internal/auth", "QueryAuthd")
	if f == nil || q == nil {
		if q != nil {
			c.Anchor("internal/auth.State.Authorizations")
		}
		return
	}
	for _, fn := range c.P.RepoFuncs() {
		an.Instrs(fn, func(in ssa.Instruction) {
			st, ok := in.(*ssa.Store)
			if !ok {
				return
			}
			fa, ok := st.Addr.(*ssa.FieldAddr)
			if !ok || an.FieldOf(fa) != f {
				return
			}
			c.Bad(fn, "authorizations rewritten", st.Pos(), an.FnName(fn)+" stores into auth.State.Authorizations: IsAllowed matches topic, channel and permission within one entry of the list the auth server sent, so merging, sorting or trimming entries changes who may do what", nil)
		})
	}
	c.OK(q, "authorizations are what the auth server sent", q.Pos(), "")
}

// ---- C14.remoteaddr ------------------------------------------------------------------------------------------

func c14remoteaddr(c *an.Ctx) {
	fn := c.Fn("nsqlookupd", "(*LookupProtocolV1).IDENTIFY")
	ra := c.P.Field("nsqlookupd", "PeerInfo", "RemoteAddress")
	pi := c.P.Field("nsqlookupd", "ClientV1", "peerInfo")
	if fn == nil || ra == nil || pi == nil {
		if fn != nil {
			c.Anchor("nsqlookupd.PeerInfo.RemoteAddress / ClientV1.peerInfo")
		}
		return
	}
	var decodes []ssa.Instruction
	for _, ci := range an.CallsIn(fn, func(ci ssa.CallInstruction) bool {
		return an.StdCallee(ci, "encoding/json", "Unmarshal") || an.StdCallee(ci, "encoding/json", "Decode")
	}) {
		decodes = append(decodes, ci.(ssa.Instruction))
	}
	if len(decodes) == 0 {
		c.Und(fn, "remote address set after decoding", fn.Pos(), "IDENTIFY no longer decodes JSON with encoding/json")
		return
	}
	storeTo := func(f *types.Var) func(in ssa.Instruction, _ *an.PathState) bool {
		return func(in ssa.Instruction, _ *an.PathState) bool {
			st, ok := in.(*ssa.Store)
			if !ok {
				return false
			}
			fa, ok := st.Addr.(*ssa.FieldAddr)
			return ok && an.FieldOf(fa) == f
		}
	}
	q := &an.PathQ{Fn: fn, StartAfter: decodes, Sink: storeTo(pi), Cut: storeTo(ra)}
	w, found := q.Find()
	if found {
		c.Bad(fn, "remote address set after decoding", decodes[0].Pos(), "IDENTIFY can attach the peer record to the connection without writing RemoteAddress after the JSON was decoded: remote_address is a JSON field of PeerInfo, so a peer chooses the address the lookup answers and /nodes report for it", w)
	} else {
		c.OK(fn, "remote address set after decoding", decodes[0].Pos(), "")
	}
}

// ---- C15.sendresponse ----------------------------------------------------------------------------------------

// c15sendresponse: the V1 framing is a big-endian int32 length and then the body. The rule identifies the two writes by
// value: the length is derived from len(data) with nothing added, the body write is handed the data parameter itself.
func c15sendresponse(c *an.Ctx) {
	fn := c.Fn("internal/protocol", "SendResponse")
	if fn == nil {
		return
	}
	if len(fn.Params) < 2 {
		c.Und(fn, "length then body", fn.Pos(), "SendResponse no longer takes (w, data)")
		return
	}
	data := fn.Params[1]
	isLenOfData := func(v ssa.Value) bool {
		v = an.Strip(v)
		for {
			if cv, ok := v.(*ssa.Convert); ok {
				v = an.Strip(cv.X)
				continue
			}
			if mi, ok := v.(*ssa.MakeInterface); ok {
				v = an.Strip(mi.X)
				continue
			}
			break
		}
		call, ok := v.(*ssa.Call)
		if !ok {
			return false
		}
		bi, ok := call.Call.Value.(*ssa.Builtin)
		return ok && bi.Name() == "len" && len(call.Call.Args) == 1 && an.Strip(call.Call.Args[0]) == ssa.Value(data)
	}
	var lenAt, bodyAt ssa.Instruction
	an.Instrs(fn, func(in ssa.Instruction) {
		ci, ok := in.(ssa.CallInstruction)
		if !ok {
			return
		}
		args := ci.Common().Args
		switch {
		case an.StdCallee(ci, "encoding/binary", "Write") && len(args) == 3 && isLenOfData(args[2]):
			lenAt = in
		case an.StdCallee(ci, "encoding/binary", "PutUint32") && len(args) >= 2 && isLenOfData(args[len(args)-1]):
			lenAt = in
		case ci.Common().IsInvoke() && ci.Common().Method.Name() == "Write" && len(args) == 1 && an.Strip(args[0]) == ssa.Value(data):
			bodyAt = in
		}
	})
	ok := lenAt != nil && bodyAt != nil
	if ok {
		// the body write comes after the length on every path: the length write is not reachable from the body write
		q := &an.PathQ{Fn: fn, StartAfter: []ssa.Instruction{bodyAt}, Sink: func(in ssa.Instruction, _ *an.PathState) bool { return in == lenAt }}
		_, back := q.Find()
		q = &an.PathQ{Fn: fn, StartEntry: true, Sink: func(in ssa.Instruction, _ *an.PathState) bool { return in == bodyAt },
			Cut: func(in ssa.Instruction, _ *an.PathState) bool { return in == lenAt }}
		_, without := q.Find()
		ok = !back && !without
	}
	c.Check(ok, fn, "length then body", fn.Pos(), "", "SendResponse no longer writes int32(len(data)) followed by a Write of data itself (a body staged through a scratch buffer has to fit it for every length): nsqd's lookup peer and every V1 client read exactly that framing")
}

// ---- C16.reconnectcb -----------------------------------------------------------------------------------------

// c16reconnectcb: Command reconnects when the peer is not connected and then runs connectCallback (IDENTIFY and the
// re-registration of every topic and channel) – unless the state it read says the callback is what is calling it. The state
// that excuses the callback has to be the reading that made Command connect: a reading taken once per call but used by a
// retry loop belongs to an earlier connection.
func c16reconnectcb(c *an.Ctx) {
	fn := c.Fn("nsqd", "(*lookupPeer).Command")
	stF := c.P.Field("nsqd", "lookupPeer", "state")
	cbF := c.P.Field("nsqd", "lookupPeer", "connectCallback")
	connect := c.Fn("nsqd", "(*lookupPeer).Connect")
	if fn == nil || stF == nil || cbF == nil || connect == nil {
		if fn != nil {
			c.Anchor("nsqd.lookupPeer.state / connectCallback / Connect")
		}
		return
	}
	construct := "reconnect announces the peer again"
	conns := an.CallsTo(fn, connect)
	var cbs []ssa.CallInstruction
	for _, ci := range an.CallsIn(fn, func(ci ssa.CallInstruction) bool {
		f, _ := an.LoadedField(ci.Common().Value)
		return f == cbF
	}) {
		cbs = append(cbs, ci)
	}
	if len(conns) == 0 || len(cbs) == 0 {
		c.Check(len(conns) == 0, fn, construct, fn.Pos(), "", "lookupPeer.Command connects but never runs connectCallback: a peer that reconnects is not told which topics and channels this nsqd has")
		return
	}
	stateLoad := func(v ssa.Value) *ssa.UnOp {
		u, ok := an.Strip(v).(*ssa.UnOp)
		if !ok || u.Op != token.MUL {
			return nil
		}
		if f, _ := an.LoadedField(u); f == stF {
			return u
		}
		return nil
	}
	// readings of the state that guard the connect
	var connReads []*ssa.UnOp
	for _, cn := range conns {
		for _, cmp := range an.CmpsAt(cn.Block()) {
			for _, v := range []ssa.Value{cmp.X, cmp.Y} {
				if u := stateLoad(v); u != nil {
					connReads = append(connReads, u)
				}
			}
		}
	}
	same := func(a, b *ssa.UnOp) bool {
		if a == b {
			return true
		}
		if a.Block() != b.Block() {
			return false
		}
		i, j := an.IndexInBlock(a), an.IndexInBlock(b)
		if i > j {
			i, j = j, i
		}
		for _, in := range a.Block().Instrs[i+1 : j] {
			switch in.(type) {
			case *ssa.Store, ssa.CallInstruction, *ssa.MapUpdate, *ssa.Send:
				return false
			}
		}
		return true
	}
	for _, cb := range cbs {
		ok := true
		for _, cmp := range an.CmpsAt(cb.Block()) {
			for _, v := range []ssa.Value{cmp.X, cmp.Y} {
				u := stateLoad(v)
				if u == nil {
					continue
				}
				// a reading taken after the connect (the callback's own outcome) is not what excuses the callback
				matched := false
				for _, r := range connReads {
					if same(u, r) {
						matched = true
					}
				}
				if !matched && !readAfterAny(u, conns) {
					ok = false
				}
			}
		}
		c.Check(ok, fn, construct, cb.Pos(), "", "lookupPeer.Command skips connectCallback on a reading of the peer's state that is not the one that made it connect (taken before a retry loop, say): after the retry reconnects, the peer is neither identified nor told this nsqd's topics and channels, and consumers that ask it find nothing until the next change")
	}
}

func readAfterAny(u *ssa.UnOp, calls []ssa.CallInstruction) bool {
	for _, ci := range calls {
		in := ci.(ssa.Instruction)
		if in.Block() == u.Block() {
			if an.IndexInBlock(in) < an.IndexInBlock(u) {
				return true
			}
			continue
		}
		if in.Block().Dominates(u.Block()) {
			return true
		}
	}
	return false
}

// ---- C17.decorators ------------------------------------------------------------------------------------------

func c17decorators(c *an.Ctx) {
	fn := c.Fn("nsqadmin", "NewHTTPServer")
	if fn == nil {
		return
	}
	n := 0
	for _, r := range routesOf(c.P, fn) {
		if r.Method == "GET" || r.Raw {
			continue
		}
		n++
		var bad []string
		for _, dv := range r.DecVals {
			df := funcOfValue(c.P, dv)
			if df == nil || df.Pkg == nil || df.Pkg.Pkg.Path() == an.ModPath+"/internal/http_api" {
				continue
			}
			fns := []*ssa.Function{df}
			if rf := returnedFunc(df); rf != nil {
				fns = append(fns, rf)
			}
			for _, g := range fns {
				for _, h := range an.WithAnon(g) {
					for _, ci := range an.CallsIn(h, func(ci ssa.CallInstruction) bool {
						f := an.StaticCallee(ci)
						return f != nil && f.Pkg != nil && f.Pkg.Pkg.Path() == an.ModPath+"/internal/clusterinfo"
					}) {
						bad = append(bad, an.FnName(df)+" calls "+an.FnName(an.StaticCallee(ci)))
					}
				}
			}
		}
		k := r.Method + " " + r.Path
		c.Check(len(bad) == 0, fn, "decorators of "+k, r.Site.Pos(), "", "route "+k+" is wrapped in a decorator that talks to the cluster before the handler runs ("+strings.Join(bad, "; ")+"): the handler's isAuthorizedAdminRequest check comes after it, so a client outside the admin list makes nsqadmin query every nsqlookupd and nsqd and learns from the answer (404 or 403) which nodes exist")
	}
	c.Check(n >= 7, fn, "state-changing routes located", fn.Pos(), "", "fewer than seven non-GET routes found in nsqadmin")
}

// ---- C19.notruncate ------------------------------------------------------------------------------------------

func c19notruncate(c *an.Ctx) {
	n := 0
	for _, fn := range c.P.PkgFuncs("apps/nsq_to_file") {
		an.Instrs(fn, func(in ssa.Instruction) {
			ci, ok := in.(ssa.CallInstruction)
			if !ok {
				return
			}
			f := an.StaticCallee(ci)
			if f == nil || f.Pkg == nil || f.Pkg.Pkg.Path() != "os" {
				return
			}
			switch f.Name() {
			case "Truncate":
				c.Bad(fn, "file shortened", in.Pos(), an.FnName(fn)+" truncates a file: nsq_to_file only ever appends whole records to files it owns, and the bytes already there were acknowledged to nsqd (or belong to another writer of the same name)", nil)
			case "OpenFile":
				n++
				args := ci.Common().Args
				if len(args) < 2 {
					return
				}
				bad := false
				for _, o := range originsOrNone(args[1]) {
					if k, ok := an.ConstInt(o); ok && k&0x200 != 0 { // os.O_TRUNC on linux
						bad = true
					}
				}
				if bad {
					c.Bad(fn, "file shortened", in.Pos(), an.FnName(fn)+" opens a file with O_TRUNC", nil)
				}
			case "Create":
				c.Bad(fn, "file shortened", in.Pos(), an.FnName(fn)+" uses os.Create, which truncates an existing file", nil)
			}
		})
	}
	c.Check(n >= 1, nil, "file opens located", token.NoPos, "", "no os.OpenFile call found in nsq_to_file")
}

// ---- C20.alldest ---------------------------------------------------------------------------------------------

func c20alldest(c *an.Ctx) {
	fn := c.Fn("apps/to_nsq", "main")
	if fn == nil {
		return
	}
	construct := "every destination kept"
	var starts []ssa.Instruction
	for _, ci := range an.CallsIn(fn, func(ci ssa.CallInstruction) bool {
		f := an.StaticCallee(ci)
		return f != nil && f.Name() == "NewProducer" && f.Pkg != nil && strings.HasSuffix(f.Pkg.Pkg.Path(), "go-nsq")
	}) {
		starts = append(starts, ci.(ssa.Instruction))
	}
	if len(starts) == 0 {
		c.Und(fn, construct, fn.Pos(), "to_nsq main no longer calls nsq.NewProducer")
		return
	}
	prodT := starts[0].(ssa.Value).Type()
	if tp, ok := prodT.(*types.Tuple); ok && tp.Len() > 0 {
		prodT = tp.At(0).Type()
	}
	keeps := func(in ssa.Instruction, _ *an.PathState) bool {
		switch x := in.(type) {
		case *ssa.MapUpdate:
			return types.Identical(x.Value.Type(), prodT)
		case *ssa.Call:
			if bi, ok := x.Call.Value.(*ssa.Builtin); ok && bi.Name() == "append" && len(x.Call.Args) == 2 {
				if sl, ok := x.Call.Args[1].Type().Underlying().(*types.Slice); ok && types.Identical(sl.Elem(), prodT) {
					return true
				}
			}
		}
		return false
	}
	nextOrLeave := func(in ssa.Instruction, _ *an.PathState) bool {
		for _, s := range starts {
			if in == s {
				return true // the next address
			}
		}
		switch x := in.(type) {
		case ssa.CallInstruction:
			// past the loop: the first look at the collection's size
			if bi, ok := x.Common().Value.(*ssa.Builtin); ok && bi.Name() == "len" && len(x.Common().Args) == 1 {
				if _, ok := x.Common().Args[0].Type().Underlying().(*types.Map); ok {
					return true
				}
			}
		case *ssa.Return:
			return true
		}
		return false
	}
	q := &an.PathQ{Fn: fn, StartAfter: starts, Sink: nextOrLeave, Cut: keeps}
	w, found := q.Find()
	if found {
		c.Bad(fn, construct, starts[0].Pos(), "to_nsq can go on to the next address without keeping the producer it made for this one: every line is then published to fewer nsqds than the command line named, silently", w)
	} else {
		c.OK(fn, construct, starts[0].Pos(), "")
	}
}

// ---- C06.mainafterload ---------------------------------------------------------------------------------------

// c06mainafterload: Main opens the TCP and HTTP servers. A client that gets in while LoadMetadata is still re-creating
// topics makes PersistMetadata write a document with the topics restored so far; a crash before the load finishes then
// starts from that shorter document.
func c06mainafterload(c *an.Ctx) {
	fn := c.Fn("apps/nsqd", "(*program).Start")
	mainFn := c.Fn("nsqd", "(*NSQD).Main")
	if fn == nil || mainFn == nil {
		return
	}
	// reaches: f (a closure or a helper of package main) calls NSQD.Main, itself or two calls down
	var reaches func(f *ssa.Function, d int) bool
	reaches = func(f *ssa.Function, d int) bool {
		if f == nil || d > 2 || f.Blocks == nil {
			return false
		}
		for _, g := range an.WithAnon(f) {
			if len(an.CallsTo(g, mainFn)) > 0 {
				return true
			}
			for _, ci := range an.CallsIn(g, func(ssa.CallInstruction) bool { return true }) {
				if h := an.StaticCallee(ci); h != nil && h != g && h.Pkg == fn.Pkg && reaches(h, d+1) {
					return true
				}
			}
		}
		return false
	}
	launches := func(in ssa.Instruction, _ *an.PathState) bool {
		ci, ok := in.(ssa.CallInstruction)
		if !ok {
			return false
		}
		if an.IsCallTo(ci, mainFn) {
			return true
		}
		if mc, ok := an.Strip(ci.Common().Value).(*ssa.MakeClosure); ok {
			if f, ok := mc.Fn.(*ssa.Function); ok {
				if bm := an.BoundMethod(f); bm != nil {
					f = bm
				}
				return reaches(f, 0)
			}
		}
		if h := an.StaticCallee(ci); h != nil && h.Pkg == fn.Pkg && h != fn {
			return reaches(h, 0)
		}
		return false
	}
	n := 0
	an.Instrs(fn, func(in ssa.Instruction) {
		if launches(in, nil) {
			n++
		}
	})
	if n == 0 {
		c.Und(fn, "serving starts after the metadata is loaded", fn.Pos(), "program.Start no longer launches NSQD.Main")
		return
	}
	for _, name := range []string{"(*NSQD).LoadMetadata", "(*NSQD).PersistMetadata"} {
		step := c.Fn("nsqd", name)
		if step == nil {
			continue
		}
		construct := "Main launched after " + step.Name()
		q := &an.PathQ{Fn: fn, StartEntry: true, Sink: launches, Cut: func(in ssa.Instruction, _ *an.PathState) bool {
			ci, ok := in.(ssa.CallInstruction)
			return ok && an.IsCallTo(ci, step)
		}}
		w, found := q.Find()
		if found {
			c.Bad(fn, construct, fn.Pos(), "program.Start can launch NSQD.Main (the TCP/HTTP servers, the queue scanner, the lookup loop) before "+step.Name()+" returned: requests served during the load persist a metadata document that lacks the topics not restored yet, and see topics without their channels", w)
		} else {
			c.OK(fn, construct, fn.Pos(), "")
		}
	}
}
