package rules

import (
	"go/token"
	"go/types"

	"golang.org/x/tools/go/ssa"

	"nsqverif/an"
)

func init() {
	Props["C01"] = PropInfo{
		Explanation: "Decides the custody discipline behind at-least-once delivery, not the delivery history itself: " +
			"(ack) every publish entry point answers OK only through the success edge of Topic.PutMessage(s) on the topic obtained from GetTopic; " +
			"(put) Topic.put/Channel.put/writeMessageToBackend return nil only after the message was sent on a memory channel or BackendQueue.Put succeeded; " +
			"(fanout) the topic pump hands every acquired message to every element of the whole channel list, which is rebuilt from the channel map on every membership token, and membership changes send the token after the map change; " +
			"(pump) the consumer pump registers every acquired message in flight before the next iteration (sample-rate drop excepted); " +
			"(scan) both timeout scans re-put every message they take off a heap; the scan worker runs both scans; " +
			"(req) REQ and TOUCH put the popped message back into a container on every path.",
		NotDecided: "atomicity of hand-offs w.r.t. other goroutines beyond C02's single-winner pop; eventual delivery (fairness of select / consumers); go-diskqueue internals.",
		Assumptions: []string{
			"no nil *Message is ever sent on a queue channel; diskqueue records are >= minValidMsgLength (non-empty)",
			"BackendQueue.Put returning nil means the record is queued (go-diskqueue contract)",
		},
	}

	reg("C01.ack", "PATH", "publish entry points answer success only after Topic.PutMessage(s) succeeded on the topic from GetTopic", 10, c01ack)
	reg("C01.put", "PATH", "put functions return nil only after a memory-channel send of the message or a successful backend write", 8, c01put)
	reg("C01.fanout", "PATH+ORIG", "topic pump: every acquired message reaches PutMessage/PutMessageDeferred on every element of the whole channel list", 8, c01fanout)
	reg("C01.pump", "PATH", "consumer pump: every acquired message is registered in flight (StartInFlightTimeout) before the next iteration, sample-rate drop excepted", 5, c01pump)
	reg("C01.scan", "PATH", "timeout/deferred scans re-put every message they remove from a heap; worker runs both scans on every channel it is handed", 5, c01scan)
	reg("C01.req", "PATH", "REQ/TOUCH: after the in-flight pop succeeded every path re-inserts the same message into a container", 6, c01req)
}

func c01ack(c *an.Ctx) {
	putMsg := c.Fn("nsqd", "(*Topic).PutMessage")
	putMsgs := c.Fn("nsqd", "(*Topic).PutMessages")
	getTopic := c.Fn("nsqd", "(*NSQD).GetTopic")
	getTopicQ := c.Fn("nsqd", "(*httpServer).getTopicFromQuery")
	newMsg := c.Fn("nsqd", "NewMessage")
	readMPUB := c.Fn("nsqd", "readMPUB")
	if putMsg == nil || putMsgs == nil || getTopic == nil || getTopicQ == nil || newMsg == nil || readMPUB == nil {
		return
	}
	entries := []string{"(*protocolV2).PUB", "(*protocolV2).DPUB", "(*protocolV2).MPUB", "(*httpServer).doPUB", "(*httpServer).doMPUB"}
	isPut := func(ci ssa.CallInstruction) bool { return an.IsCallTo(ci, putMsg, putMsgs) }
	for _, name := range entries {
		fn := c.Fn("nsqd", name)
		if fn == nil {
			continue
		}
		w, found, ncalls := pathAvoidingSuccess(fn, sinkSuccessReturn, isPut)
		if ncalls == 0 {
			c.Bad(fn, "success-return after PutMessage(s)", fn.Pos(), "publish entry point contains no call to Topic.PutMessage/PutMessages", nil)
			continue
		}
		if found {
			c.Bad(fn, "success-return after PutMessage(s)", fn.Pos(),
				"a success response is reachable without passing the success edge of Topic.PutMessage/PutMessages: the publisher is told OK for a message that is in no queue", w)
		} else {
			c.OK(fn, "success-return after PutMessage(s)", fn.Pos(), "every nil-error return is cut by the success edge of the put")
		}
		for _, ci := range an.CallsIn(fn, isPut) {
			recv := recvArg(ci)
			good := an.OriginsAll(recv, func(o ssa.Value) bool {
				if call := an.CallResultOf(o, getTopic, getTopicQ); call != nil {
					return true
				}
				return false
			})
			c.Check(good, fn, "put receiver from GetTopic", ci.Pos(), "the topic receiving the put is the one returned by GetTopic in this function",
				"the *Topic receiving PutMessage(s) is not (only) the result of GetTopic/getTopicFromQuery in this function")
			// message argument
			m := arg(ci, 0)
			if an.IsCallTo(ci, putMsg) {
				good := an.OriginsAll(m, func(o ssa.Value) bool { return an.CallResultOf(o, newMsg) != nil })
				c.Check(good, fn, "put argument from NewMessage", ci.Pos(), "message is the NewMessage built in this function",
					"the message handed to PutMessage is not the NewMessage built in this function")
			} else {
				good := msgSliceFrom(m, newMsg, readMPUB, 0)
				c.Check(good, fn, "put argument from readMPUB/NewMessage", ci.Pos(), "message slice is readMPUB's result or appended NewMessage values",
					"the slice handed to PutMessages is not built from readMPUB / appended NewMessage values only")
			}
		}
	}
}

// msgSliceFrom: v is nil, the result of readMPUB, or an append chain of NewMessage values.
func msgSliceFrom(v ssa.Value, newMsg, readMPUB *ssa.Function, depth int) bool {
	if depth > 6 {
		return false
	}
	seen := map[ssa.Value]bool{}
	var walk func(v ssa.Value) bool
	walk = func(v ssa.Value) bool {
		v = an.Strip(v)
		if seen[v] {
			return true
		}
		seen[v] = true
		switch x := v.(type) {
		case *ssa.Const:
			return x.Value == nil
		case *ssa.Phi:
			for _, e := range x.Edges {
				if !walk(e) {
					return false
				}
			}
			return true
		case *ssa.Extract:
			return an.CallResultOf(x, readMPUB) != nil
		case *ssa.Call:
			if bi, ok := x.Call.Value.(*ssa.Builtin); ok && bi.Name() == "append" {
				if !walk(x.Call.Args[0]) {
					return false
				}
				return appendedAll(x.Call.Args[1], func(e ssa.Value) bool { return an.CallResultOf(e, newMsg) != nil })
			}
		}
		return false
	}
	return walk(v)
}

// appendedAll: the variadic slice argument of append (slice of a fresh array whose stores are the
// appended elements) has only elements satisfying pred.
func appendedAll(sl ssa.Value, pred func(ssa.Value) bool) bool {
	s, ok := sl.(*ssa.Slice)
	if !ok {
		return false
	}
	al, ok := s.X.(*ssa.Alloc)
	if !ok {
		return false
	}
	n := 0
	for _, r := range an.Referrers(al) {
		ia, ok := r.(*ssa.IndexAddr)
		if !ok {
			continue
		}
		for _, rr := range an.Referrers(ia) {
			if st, ok := rr.(*ssa.Store); ok && st.Addr == ia {
				n++
				if !pred(st.Val) {
					return false
				}
			}
		}
	}
	return n > 0
}

// appendedElems returns the values stored into append's variadic array.
func appendedElems(sl ssa.Value) []ssa.Value {
	var out []ssa.Value
	s, ok := sl.(*ssa.Slice)
	if !ok {
		return nil
	}
	al, ok := s.X.(*ssa.Alloc)
	if !ok {
		return nil
	}
	for _, r := range an.Referrers(al) {
		if ia, ok := r.(*ssa.IndexAddr); ok {
			for _, rr := range an.Referrers(ia) {
				if st, ok := rr.(*ssa.Store); ok && st.Addr == ia {
					out = append(out, st.Val)
				}
			}
		}
	}
	return out
}

// sendCutEdges: edges/instructions in fn that mean "value m was sent on a chan field of recv".
func sendCuts(fn *ssa.Function, isMsg func(ssa.Value) bool, isChan func(ssa.Value) bool) (edges []an.Edge, sends []ssa.Instruction) {
	for _, sel := range an.Selects(fn) {
		for _, st := range an.SelectStates(sel) {
			if st.State.Dir == types.SendOnly && isMsg(st.State.Send) && isChan(st.State.Chan) {
				edges = append(edges, st.Chosen...)
			}
		}
	}
	an.Instrs(fn, func(in ssa.Instruction) {
		if s, ok := in.(*ssa.Send); ok && isMsg(s.X) && isChan(s.Chan) {
			sends = append(sends, s)
		}
	})
	return
}

func c01put(c *an.Ctx) {
	wmb := backendWriterFn(c)
	if wmb == nil {
		return
	}
	msgT := c.P.Named("nsqd", "Message")
	for _, tn := range []string{"Topic", "Channel"} {
		fn := c.Fn("nsqd", "(*"+tn+").put")
		if fn == nil {
			continue
		}
		backendF := c.P.Field("nsqd", tn, "backend")
		isM := func(v ssa.Value) bool { return isParam(v, fn, 1) }
		isRecvChan := func(v ssa.Value) bool {
			f, base := an.LoadedField(an.Strip(v))
			if f == nil || base == nil {
				return false
			}
			ch, ok := f.Type().Underlying().(*types.Chan)
			if !ok {
				return false
			}
			pt, ok := ch.Elem().(*types.Pointer)
			return ok && msgT != nil && types.Identical(pt.Elem(), msgT) && isParam(base, fn, 0)
		}
		sendEdges, sendInstrs := sendCuts(fn, isM, isRecvChan)
		wmbOK := func(ci ssa.CallInstruction) bool {
			return an.IsCallTo(ci, wmb) && isM(arg(ci, 0)) && isLoadOfField(arg(ci, 1), backendF)
		}
		wEdges, wCalls := successEdgesOfCalls(fn, wmbOK)
		q := &an.PathQ{Fn: fn, StartEntry: true, Sink: sinkSuccessReturn,
			CutEdge: func(e an.Edge, _ *an.PathState) bool { return an.EdgeIn(e, sendEdges) || an.EdgeIn(e, wEdges) },
			Cut: func(in ssa.Instruction, _ *an.PathState) bool {
				for _, s := range sendInstrs {
					if s == in {
						return true
					}
				}
				return false
			}}
		w, found := q.Find()
		if found {
			c.Bad(fn, "nil return after send or backend write", fn.Pos(),
				"put can return nil although the message was neither sent on a memory channel of the receiver nor written to its backend: the message is dropped while the caller is told it is queued", w)
		} else {
			c.OK(fn, "nil return after send or backend write", fn.Pos(), sprintf("%d send states, %d backend writes", len(sendEdges), len(wCalls)))
		}
		c.Check(len(wCalls) >= 1, fn, "backend write present", fn.Pos(), "writeMessageToBackend(m, receiver.backend) present",
			"put contains no writeMessageToBackend(m, receiver.backend): overflow is dropped instead of spilling to disk")
	}
	// writeMessageToBackend: returns bq.Put's result after a successful encode of the same message
	{
		fn := wmb
		var putCalls []ssa.CallInstruction
		for _, ci := range an.CallsIn(fn, func(ci ssa.CallInstruction) bool { return an.IsInvokeOf(ci, "BackendQueue", "Put") }) {
			if isParam(ci.Common().Value, fn, 1) {
				putCalls = append(putCalls, ci)
			}
		}
		ok := len(putCalls) >= 1
		for _, r := range an.Returns(fn) {
			if !isSuccessReturn(r) {
				continue
			}
			pass := false
			for _, pc := range putCalls {
				if passThroughOf(r, pc.Value()) {
					pass = true
				}
			}
			if !pass {
				// acceptable if cut by a success edge of Put
				ok = false
			}
		}
		if !ok {
			// second chance: explicit `err := bq.Put(); if err != nil {return err}; return nil`
			_, found, n := pathAvoidingSuccess(fn, sinkSuccessReturn, func(ci ssa.CallInstruction) bool {
				return an.IsInvokeOf(ci, "BackendQueue", "Put") && isParam(ci.Common().Value, fn, 1)
			})
			ok = n > 0 && !found
		}
		c.Check(ok, fn, "nil return only via bq.Put", fn.Pos(), "returns BackendQueue.Put's verdict",
			"writeMessageToBackend can return nil without a successful BackendQueue.Put on the queue it was given")
		// the bytes handed to Put are the encoding of msg
		writeTo := c.Fn("nsqd", "(*Message).WriteTo")
		if writeTo != nil {
			for _, pc := range putCalls {
				good := false
				a := pc.Common().Args[0]
				if call, ok := an.Strip(a).(*ssa.Call); ok && an.StdCallee(call, "bytes", "(*Buffer).Bytes") {
					buf := call.Call.Args[0]
					for _, wc := range an.CallsTo(fn, writeTo) {
						if isParam(wc.Common().Args[0], fn, 0) && an.SameValue(an.Strip(wc.Common().Args[1]), buf) {
							succ, _ := an.ErrEdges(wc.Value())
							q := &an.PathQ{Fn: fn, StartEntry: true,
								Sink:    func(in ssa.Instruction, _ *an.PathState) bool { return in == pc.(ssa.Instruction) },
								CutEdge: func(e an.Edge, _ *an.PathState) bool { return an.EdgeIn(e, succ) }}
							if _, f := q.Find(); !f && len(succ) > 0 {
								good = true
							}
						}
					}
				}
				c.Check(good, fn, "Put of the encoded message", pc.Pos(), "Put receives buf.Bytes() after msg.WriteTo(buf) succeeded",
					"the bytes handed to BackendQueue.Put are not the buffer msg.WriteTo just filled successfully")
			}
		}
	}
	// PutMessage / PutMessages / Channel.PutMessage: nil only after put succeeded; exiting test first
	for _, spec := range []struct{ name, put string }{
		{"(*Topic).PutMessage", "(*Topic).put"}, {"(*Topic).PutMessages", "(*Topic).put"}, {"(*Channel).PutMessage", "(*Channel).put"},
	} {
		fn := c.Fn("nsqd", spec.name)
		put := c.Fn("nsqd", spec.put)
		if fn == nil || put == nil {
			continue
		}
		w, found, n := pathAvoidingSuccess(fn, sinkSuccessReturn, func(ci ssa.CallInstruction) bool {
			return an.IsCallTo(ci, put) && an.SameValue(recvArg(ci), fn.Params[0])
		})
		if spec.name == "(*Topic).PutMessages" && n > 0 && found {
			// an empty batch legitimately returns nil without a put: accept iff every put in the loop is checked
			// (the loop over msgs leaves only through exhaustion or the error return)
			found = !putLoopComplete(fn, put)
		}
		if n == 0 || found {
			c.Bad(fn, "nil return after put", fn.Pos(), "returns nil without a successful put of its argument on the receiver", w)
		} else {
			c.OK(fn, "nil return after put", fn.Pos(), "")
		}
	}
}

// putLoopComplete: PutMessages ranges over the whole parameter slice, calls put on each element and
// leaves the loop early only on the failure edge of put.
func putLoopComplete(fn *ssa.Function, put *ssa.Function) bool {
	loops := an.NaturalLoops(fn)
	for _, ci := range an.CallsTo(fn, put) {
		l := an.LoopContaining(loops, ci.Block())
		if l == nil {
			return false
		}
		il, ok := an.AsIndexLoop(l)
		if !ok || !il.WholeOK || il.Slice == nil || !isParam(il.Slice, fn, 1) {
			return false
		}
		elem := false
		for _, e := range il.Elems() {
			if an.SameValue(arg(ci, 0), e) {
				elem = true
			}
		}
		if !elem {
			return false
		}
		_, fail := an.ErrEdges(ci.Value())
		// every path from loop body entry to the back edge passes the put call
		q := &an.PathQ{Fn: fn, StartEdges: []an.Edge{{From: il.Header, To: il.Body}},
			SinkEdge: func(e an.Edge, _ *an.PathState) bool { return e.To == il.Header },
			Cut:      func(in ssa.Instruction, _ *an.PathState) bool { return in == ci.(ssa.Instruction) }}
		if _, f := q.Find(); f {
			return false
		}
		// exits: exhaustion, or blocks dominated by the failure edge
		for _, e := range il.ExitEdges() {
			if e.From == il.Header && e.To == il.Done {
				continue
			}
			okExit := false
			for _, fe := range fail {
				if fe == e || fe.To.Dominates(e.From) || fe.To == e.From {
					okExit = true
				}
			}
			if !okExit {
				return false
			}
		}
		for b := range il.Blocks {
			if len(b.Succs) == 0 {
				okExit := false
				for _, fe := range fail {
					if fe.To.Dominates(b) {
						okExit = true
					}
				}
				if !okExit {
					return false
				}
			}
		}
		return true
	}
	return false
}

// chansWhole: v denotes the whole channel list: nil, append chains, [:0] reslices, phis of those.
func chansWhole(v ssa.Value) (ok bool, why string) {
	seen := map[ssa.Value]bool{}
	var walk func(v ssa.Value) bool
	walk = func(v ssa.Value) bool {
		v = an.Strip(v)
		if seen[v] {
			return true
		}
		seen[v] = true
		switch x := v.(type) {
		case *ssa.Const:
			return x.Value == nil
		case *ssa.Phi:
			for _, e := range x.Edges {
				if !walk(e) {
					return false
				}
			}
			return true
		case *ssa.Slice:
			if x.Low != nil {
				if k, isC := an.ConstInt(x.Low); !isC || k != 0 {
					why = "a reslice with a non-zero lower bound drops leading channels"
					return false
				}
			}
			if x.High != nil {
				if k, isC := an.ConstInt(x.High); !isC || k != 0 {
					// s[:n] keeps a prefix only; allowed only as the reset s[:0]
					why = "a reslice with an upper bound keeps only a prefix of the channel list"
					return false
				}
			}
			return walk(x.X)
		case *ssa.Call:
			if bi, ok := x.Call.Value.(*ssa.Builtin); ok && bi.Name() == "append" {
				return walk(x.Call.Args[0])
			}
		}
		why = "channel list comes from " + v.String()
		return false
	}
	return walk(v), why
}

func c01fanout(c *an.Ctx) {
	fn := c.Fn("nsqd", "(*Topic).messagePump")
	chPut := c.Fn("nsqd", "(*Channel).PutMessage")
	chPutD := c.Fn("nsqd", "(*Channel).PutMessageDeferred")
	decode := c.Fn("nsqd", "decodeMessage")
	newMsg := c.Fn("nsqd", "NewMessage")
	if fn == nil || chPut == nil || chPutD == nil || decode == nil || newMsg == nil {
		return
	}
	chanMapF := c.P.Field("nsqd", "Topic", "channelMap")
	msgT := c.P.Named("nsqd", "Message")
	loops := an.NaturalLoops(fn)

	// the fan-out loop: the index loop containing the puts
	puts := an.CallsTo(fn, chPut, chPutD)
	if len(puts) == 0 {
		c.Bad(fn, "fan-out loop", fn.Pos(), "topic pump contains no Channel.PutMessage/PutMessageDeferred call", nil)
		return
	}
	var fan *an.IndexLoop
	for _, ci := range puts {
		l := an.LoopContaining(loops, ci.Block())
		if l == nil {
			c.Bad(fn, "fan-out loop", ci.Pos(), "a channel put is not inside a loop over the channel list", nil)
			return
		}
		il, ok := an.AsIndexLoop(l)
		if !ok {
			c.Und(fn, "fan-out loop", ci.Pos(), "the loop around the channel put is not a recognised range/index loop over the channel list")
			return
		}
		if fan != nil && fan.Header != il.Header {
			c.Und(fn, "fan-out loop", ci.Pos(), "channel puts are spread over several loops")
			return
		}
		fan = il
	}
	c.Check(fan.WholeOK && fan.Slice != nil, fn, "fan-out loop starts at index 0 of a slice", fan.Header.Instrs[0].Pos(),
		"range over the slice from index 0 to len", "the fan-out loop does not start at index 0 / does not run to len(slice): some channels never get the message")
	if fan.Slice == nil {
		return
	}
	whole, why := chansWhole(fan.Slice)
	c.Check(whole, fn, "fan-out loop ranges the whole channel list", fan.Header.Instrs[0].Pos(),
		"ranged slice is the rebuilt channel list", "the fan-out loop does not range over the whole channel list: "+why)
	onlyEx, badEdges := fan.OnlyExhaustionExit()
	msg := ""
	if !onlyEx && badEdges[0].From != nil {
		msg = " (early exit from block at " + c.P.Pos(an.InstrPos(badEdges[0].From.Instrs[len(badEdges[0].From.Instrs)-1])) + ")"
	}
	c.Check(onlyEx, fn, "fan-out loop leaves only by exhaustion", fan.Header.Instrs[0].Pos(), "no break/return inside the fan-out loop",
		"the fan-out loop can be left before every channel got the message"+msg)

	// main loop = loop containing the queue select
	var mainSel *ssa.Select
	for _, sel := range an.Selects(fn) {
		for _, st := range an.SelectStates(sel) {
			if st.State.Dir == types.RecvOnly {
				if pt, ok := an.ChanElem(st.State.Chan).(*types.Pointer); ok && msgT != nil && types.Identical(pt.Elem(), msgT) {
					mainSel = sel
				}
			}
		}
	}
	if mainSel == nil {
		c.Und(fn, "queue select", fn.Pos(), "no select receiving *Message found in the topic pump")
		return
	}
	mainLoop := an.LoopContaining(loops, mainSel.Block())
	for mainLoop != nil && mainLoop.Header != mainSel.Block() {
		// want the loop whose header starts the iteration containing the select: take the innermost containing both select and fan-out
		if mainLoop.Blocks[fan.Header] {
			break
		}
		mainLoop = nil
	}
	if mainLoop == nil || !mainLoop.Blocks[fan.Header] {
		c.Und(fn, "queue select", mainSel.Pos(), "the queue select and the fan-out loop are not in one loop")
		return
	}

	// acquire points
	type acq struct {
		name    string
		edges   []an.Edge
		tracked ssa.Value
	}
	var acqs []acq
	for _, st := range an.SelectStates(mainSel) {
		if st.State.Dir != types.RecvOnly || st.Recv == nil {
			continue
		}
		el := an.ChanElem(st.State.Chan)
		if pt, ok := el.(*types.Pointer); ok && types.Identical(pt.Elem(), msgT) {
			acqs = append(acqs, acq{"recv *Message", st.Chosen, st.Recv})
		} else if sl, ok := el.(*types.Slice); ok && types.Identical(sl.Elem(), types.Typ[types.Byte]) {
			// bytes: must reach decodeMessage; acquire the decoded message on its success edge
			for _, dc := range an.CallsTo(fn, decode) {
				if an.SameValue(an.Strip(dc.Common().Args[0]), st.Recv) {
					succ, _ := an.ErrEdges(dc.Value())
					m := an.ResultN(dc.Value(), 0)
					if len(m) == 1 {
						acqs = append(acqs, acq{"decoded backend record", succ, m[0]})
					}
					// from the recv to the decode: every path reaches the decode call
					q := &an.PathQ{Fn: fn, StartEdges: st.Chosen, Tracked: []ssa.Value{st.Recv},
						SinkEdge: func(e an.Edge, _ *an.PathState) bool { return e.To == mainLoop.Header || !mainLoop.Blocks[e.To] },
						Sink:     an.IsReturn,
						Cut:      func(in ssa.Instruction, _ *an.PathState) bool { return in == dc.(ssa.Instruction) }}
					w, f := q.Find()
					if f {
						c.Bad(fn, "backend record reaches decodeMessage", st.Recv.Pos(), "a record received from the backend queue can be discarded without being decoded", w)
					} else {
						c.OK(fn, "backend record reaches decodeMessage", st.Recv.Pos(), "")
					}
				}
			}
		}
	}
	if len(acqs) < 2 {
		c.Und(fn, "acquire points", mainSel.Pos(), sprintf("expected a *Message receive and a decoded backend record, found %d acquire points", len(acqs)))
	}
	for _, a := range acqs {
		// (1) from acquire to next iteration: must enter the fan-out loop
		q := &an.PathQ{Fn: fn, StartEdges: a.edges, Tracked: []ssa.Value{a.tracked},
			SinkEdge: func(e an.Edge, _ *an.PathState) bool { return e.To == mainLoop.Header || !mainLoop.Blocks[e.To] },
			Sink:     an.IsReturn,
			CutEdge:  func(e an.Edge, _ *an.PathState) bool { return e.To == fan.Header && !fan.Blocks[e.From] }}
		w, f := q.Find()
		if f {
			c.Bad(fn, "acquired message reaches fan-out: "+a.name, a.tracked.Pos(), "a message taken from the topic queue can reach the next iteration without being fanned out: it is lost for every channel", w)
		} else {
			c.OK(fn, "acquired message reaches fan-out: "+a.name, a.tracked.Pos(), "")
		}
		// (2) inside the loop: every iteration puts a message derived from the acquired one on the iteration's channel
		elems := fan.Elems()
		isElem := func(v ssa.Value) bool {
			for _, e := range elems {
				if an.SameValue(v, e) {
					return true
				}
			}
			return false
		}
		var derivedD func(v ssa.Value, st *an.PathState, d int) bool
		derivedD = func(v ssa.Value, st *an.PathState, d int) bool {
			if d > 6 {
				return false
			}
			if st.Has(v) {
				return true
			}
			if phi, ok := v.(*ssa.Phi); ok {
				for _, e := range phi.Edges {
					if !derivedD(e, st, d+1) {
						return false
					}
				}
				return true
			}
			if mc := msgCopyOf(v, newMsg); mc != nil {
				// the per-channel copy: NewMessage(msg.ID, msg.Body), directly or through a helper
				return st.Has(mc.Src)
			}
			return false
		}
		derived := func(v ssa.Value, st *an.PathState) bool { return derivedD(v, st, 0) }
		// tracked must include the phi in the header region: run from acquire edges with SinkEdge = back edge of fan loop w/o put
		q2 := &an.PathQ{Fn: fn, StartEdges: a.edges, Tracked: []ssa.Value{a.tracked},
			SinkEdge: func(e an.Edge, st *an.PathState) bool {
				return e.To == fan.Header && fan.Blocks[e.From]
			},
			CutEdge: func(e an.Edge, _ *an.PathState) bool { return !mainLoop.Blocks[e.To] || e.To == mainLoop.Header },
			Cut: func(in ssa.Instruction, st *an.PathState) bool {
				ci, ok := in.(ssa.CallInstruction)
				if !ok || !an.IsCallTo(ci, chPut, chPutD) {
					return false
				}
				return isElem(recvArg(ci)) && derived(arg(ci, 0), st)
			}}
		w, f = q2.Find()
		if f {
			c.Bad(fn, "every iteration puts the message: "+a.name, a.tracked.Pos(),
				"an iteration of the fan-out loop can complete without calling PutMessage/PutMessageDeferred on that iteration's channel with (a copy of) the acquired message", w)
		} else {
			c.OK(fn, "every iteration puts the message: "+a.name, a.tracked.Pos(), "")
		}
	}

	// channel list rebuilt from the whole channelMap: every append into the list inside a map-range loop
	// over t.channelMap appends the iteration's value unconditionally
	nRebuild := 0
	for _, l := range loops {
		il, ok := an.AsIndexLoop(l)
		if !ok || il.Iter == nil {
			continue
		}
		if !isLoadOfField(il.Iter.X, chanMapF) {
			continue
		}
		nRebuild++
		onlyEx, _ := il.OnlyExhaustionExit()
		vals := il.Elems()
		q := &an.PathQ{Fn: fn, StartEdges: []an.Edge{{From: il.Header, To: il.Body}},
			SinkEdge: func(e an.Edge, _ *an.PathState) bool { return e.To == il.Header },
			Cut: func(in ssa.Instruction, _ *an.PathState) bool {
				call, ok := in.(*ssa.Call)
				if !ok {
					return false
				}
				if bi, ok := call.Call.Value.(*ssa.Builtin); !ok || bi.Name() != "append" {
					return false
				}
				for _, e := range appendedElems(call.Call.Args[1]) {
					for _, v := range vals {
						if e == v {
							// the append result must feed the loop phi (i.e. be kept)
							for _, r := range an.Referrers(call) {
								if phi, ok := r.(*ssa.Phi); ok && phi.Block() == il.Header {
									return true
								}
							}
						}
					}
				}
				return false
			}}
		w, f := q.Find()
		if f || !onlyEx {
			c.Bad(fn, "channel list rebuild keeps every channel", il.Iter.Pos(), "the rebuild of the pump's channel list can skip a channel of channelMap (conditional append, break or continue)", w)
		} else {
			c.OK(fn, "channel list rebuild keeps every channel", il.Iter.Pos(), "")
		}
	}
	c.Check(nRebuild >= 2, fn, "channel list rebuilt at start and on update", fn.Pos(), sprintf("%d rebuild loops", nRebuild),
		"expected the channel list to be rebuilt from channelMap after start and on every channelUpdateChan token")
	// the update arm must rebuild: from the chosen edge of the channelUpdateChan receive in the main select, every path to the
	// loop head passes a range over channelMap
	updF := c.P.Field("nsqd", "Topic", "channelUpdateChan")
	for _, st := range an.SelectStates(mainSel) {
		if st.State.Dir == types.RecvOnly && isLoadOfField(st.State.Chan, updF) {
			q := &an.PathQ{Fn: fn, StartEdges: st.Chosen,
				SinkEdge: func(e an.Edge, _ *an.PathState) bool { return e.To == mainLoop.Header },
				Cut: func(in ssa.Instruction, _ *an.PathState) bool {
					r, ok := in.(*ssa.Range)
					return ok && isLoadOfField(r.X, chanMapF)
				}}
			w, f := q.Find()
			if f {
				c.Bad(fn, "membership token triggers rebuild", st.Sel.Pos(), "after a channelUpdateChan token the pump can continue without re-reading channelMap: new channels never receive messages", w)
			} else {
				c.OK(fn, "membership token triggers rebuild", st.Sel.Pos(), "")
			}
			// and the rebuilt list is what the fan-out sees: the phi operand of the ranged slice on edges from the update arm
		}
	}

	// membership token after the map change
	for _, spec := range []struct{ name string }{{"(*Topic).GetChannel"}, {"(*Topic).DeleteExistingChannel"}} {
		g := c.Fn("nsqd", spec.name)
		if g == nil {
			continue
		}
		isUpd := func(v ssa.Value) bool { return isLoadOfField(v, updF) }
		tokEdges, tokSends := sendCuts(g, func(ssa.Value) bool { return true }, isUpd)
		// the map change: call to getOrCreateChannel, or delete on channelMap
		getOrCreate := c.P.Func("nsqd", "(*Topic).getOrCreateChannel")
		var changes []ssa.Instruction
		an.Instrs(g, func(in ssa.Instruction) {
			switch x := in.(type) {
			case *ssa.Call:
				if getOrCreate != nil && an.IsCallTo(x, getOrCreate) {
					changes = append(changes, in)
				}
				if bi, ok := x.Call.Value.(*ssa.Builtin); ok && bi.Name() == "delete" && isLoadOfField(x.Call.Args[0], chanMapF) {
					changes = append(changes, in)
				}
			case *ssa.MapUpdate:
				if isLoadOfField(x.Map, chanMapF) {
					changes = append(changes, in)
				}
			}
		})
		if len(changes) == 0 || len(tokEdges)+len(tokSends) == 0 {
			c.Bad(g, "membership token after map change", g.Pos(), "no channelUpdateChan hand-off / no channelMap change found", nil)
			continue
		}
		// no token before the change
		q := &an.PathQ{Fn: g, StartEntry: true,
			Sink: func(in ssa.Instruction, _ *an.PathState) bool {
				if s, ok := in.(*ssa.Select); ok {
					for _, st := range s.States {
						if st.Dir == types.SendOnly && isUpd(st.Chan) {
							return true
						}
					}
				}
				if s, ok := in.(*ssa.Send); ok && isUpd(s.Chan) {
					return true
				}
				return false
			},
			Cut: func(in ssa.Instruction, _ *an.PathState) bool {
				for _, ch := range changes {
					if ch == in {
						return true
					}
				}
				return false
			}}
		w, f := q.Find()
		if f {
			c.Bad(g, "membership token after map change", g.Pos(), "the pump can be told about a membership change before channelMap was changed: it re-reads the old map and misses the change", w)
			continue
		}
		// after the change, the isNew / success path must hand over the token (or observe exitChan) before returning
		exitF := c.P.Field("nsqd", "Topic", "exitChan")
		var exitEdges []an.Edge
		for _, sel := range an.Selects(g) {
			for _, st := range an.SelectStates(sel) {
				if st.State.Dir == types.RecvOnly && isLoadOfField(st.State.Chan, exitF) {
					exitEdges = append(exitEdges, st.Chosen...)
				}
			}
		}
		var startAfter []ssa.Instruction
		var isNewFalse []an.Edge
		for _, ch := range changes {
			startAfter = append(startAfter, ch)
			if call, ok := ch.(*ssa.Call); ok && getOrCreate != nil && an.IsCallTo(call, getOrCreate) {
				for _, nv := range an.ResultN(call, 1) {
					for _, t := range an.BoolTests(nv) {
						isNewFalse = append(isNewFalse, t.False)
					}
				}
			}
		}
		q3 := &an.PathQ{Fn: g, StartAfter: startAfter, Sink: an.IsReturn,
			CutEdge: func(e an.Edge, _ *an.PathState) bool {
				return an.EdgeIn(e, tokEdges) || an.EdgeIn(e, exitEdges) || an.EdgeIn(e, isNewFalse)
			},
			Cut: func(in ssa.Instruction, _ *an.PathState) bool {
				for _, s := range tokSends {
					if s == in {
						return true
					}
				}
				return false
			}}
		w, f = q3.Find()
		if f {
			c.Bad(g, "membership token after map change", g.Pos(), "after changing channelMap the function can return without handing a token to channelUpdateChan (or seeing exitChan): the pump keeps using the stale channel list", w)
		} else {
			c.OK(g, "membership token after map change", g.Pos(), "")
		}
	}
}

// fieldOfTracked: v is a load of field `name` of a tracked *Message.
func fieldOfTracked(v ssa.Value, name string, st *an.PathState) bool {
	f, base := an.LoadedField(an.Strip(v))
	return f != nil && an.FName(f) == name && base != nil && st.Has(base)
}

func c01pump(c *an.Ctx) {
	fn := c.Fn("nsqd", "(*protocolV2).messagePump")
	start := c.Fn("nsqd", "(*Channel).StartInFlightTimeout")
	decode := c.Fn("nsqd", "decodeMessage")
	if fn == nil || start == nil || decode == nil {
		return
	}
	msgT := c.P.Named("nsqd", "Message")
	loops := an.NaturalLoops(fn)
	var mainSel *ssa.Select
	for _, sel := range an.Selects(fn) {
		for _, st := range an.SelectStates(sel) {
			if st.State.Dir == types.RecvOnly {
				if pt, ok := an.ChanElem(st.State.Chan).(*types.Pointer); ok && types.Identical(pt.Elem(), msgT) {
					mainSel = sel
				}
			}
		}
	}
	if mainSel == nil {
		c.Und(fn, "queue select", fn.Pos(), "no select receiving *Message in the consumer pump")
		return
	}
	mainLoop := an.LoopContaining(loops, mainSel.Block())
	if mainLoop == nil {
		c.Und(fn, "queue select", mainSel.Pos(), "queue select is not inside a loop")
		return
	}
	// allowed drop: the sample-rate branch = an If whose condition compares a math/rand result
	allowed := func(e an.Edge, ps *an.PathState) bool {
		isRand := func(v ssa.Value) bool {
			if call, ok := an.Strip(v).(*ssa.Call); ok {
				if f := an.StaticCallee(call); f != nil && f.Pkg != nil && f.Pkg.Pkg.Path() == "math/rand" {
					return true
				}
			}
			return false
		}
		if ifi, ok := e.From.Instrs[len(e.From.Instrs)-1].(*ssa.If); ok && e.From.Succs[0] == e.To {
			if b, ok := ifi.Cond.(*ssa.BinOp); ok && (isRand(b.X) || isRand(b.Y)) {
				return true
			}
		}
		// the comparison may sit behind a merged boolean (`sampleRate > 0 && rand.Int31n(100) > sampleRate` computed
		// by a predicate): what is known on the edge says the same
		if ps != nil && len(e.From.Succs) == 2 && e.From.Succs[0] == e.To {
			for _, cmp := range ps.CmpsOnEdge(e) {
				if isRand(cmp.X) || isRand(cmp.Y) {
					return true
				}
			}
		}
		return false
	}
	sinkEdge := func(e an.Edge, _ *an.PathState) bool { return e.To == mainLoop.Header || !mainLoop.Blocks[e.To] }
	cutStart := func(in ssa.Instruction, st *an.PathState) bool {
		ci, ok := in.(ssa.CallInstruction)
		return ok && an.IsCallTo(ci, start) && st.Has(arg(ci, 0))
	}
	for _, st := range an.SelectStates(mainSel) {
		if st.State.Dir != types.RecvOnly || st.Recv == nil {
			continue
		}
		el := an.ChanElem(st.State.Chan)
		name := ""
		if f := an.ChanField(an.Strip(st.State.Chan)); f != nil {
			name = f.Name()
		}
		if pt, ok := el.(*types.Pointer); ok && types.Identical(pt.Elem(), msgT) {
			q := &an.PathQ{Fn: fn, StartEdges: st.Chosen, Tracked: []ssa.Value{st.Recv}, SinkEdge: sinkEdge, Sink: an.IsReturn, Cut: cutStart,
				CutEdge: func(e an.Edge, ps *an.PathState) bool { return allowed(e, ps) }}
			w, f := q.Find()
			construct := sprintf("recv #%d *Message %s registered in flight", st.Idx, name)
			if f {
				c.Bad(fn, construct, st.Recv.Pos(), "a message received from the channel's queue can reach the next loop iteration (or the pump's exit) without StartInFlightTimeout: it is in no container and is never redelivered", w)
			} else {
				c.OK(fn, construct, st.Recv.Pos(), "")
			}
		} else if sl, ok := el.(*types.Slice); ok && types.Identical(sl.Elem(), types.Typ[types.Byte]) {
			var dcs []ssa.CallInstruction
			for _, dc := range an.CallsTo(fn, decode) {
				dcs = append(dcs, dc)
			}
			q := &an.PathQ{Fn: fn, StartEdges: st.Chosen, Tracked: []ssa.Value{st.Recv}, SinkEdge: sinkEdge, Sink: an.IsReturn,
				Cut: func(in ssa.Instruction, ps *an.PathState) bool {
					ci, ok := in.(ssa.CallInstruction)
					return ok && an.IsCallTo(ci, decode) && ps.Has(ci.Common().Args[0])
				}}
			w, f := q.Find()
			if f {
				c.Bad(fn, "backend record reaches decodeMessage", st.Recv.Pos(), "a record received from the backend queue can be discarded without being decoded", w)
			} else {
				c.OK(fn, "backend record reaches decodeMessage", st.Recv.Pos(), "")
			}
			for _, dc := range dcs {
				succ, _ := an.ErrEdges(dc.Value())
				m := an.ResultN(dc.Value(), 0)
				if len(m) != 1 || len(succ) == 0 {
					c.Und(fn, "decoded record registered in flight", dc.Pos(), "decodeMessage result is not checked in a recognised way")
					continue
				}
				q := &an.PathQ{Fn: fn, StartEdges: succ, Tracked: []ssa.Value{m[0]}, SinkEdge: sinkEdge, Sink: an.IsReturn, Cut: cutStart,
					CutEdge: func(e an.Edge, ps *an.PathState) bool { return allowed(e, ps) }}
				w, f := q.Find()
				if f {
					c.Bad(fn, "decoded record registered in flight", dc.Pos(), "a message decoded from the backend queue can reach the next iteration without StartInFlightTimeout", w)
				} else {
					c.OK(fn, "decoded record registered in flight", dc.Pos(), "")
				}
			}
		}
	}
}

func c01scan(c *an.Ctx) {
	put := c.Fn("nsqd", "(*Channel).put")
	scanPW := &putWrappers{put: put, exiting: c.P.Func("nsqd", "(*Channel).Exiting"), memo: map[*ssa.Function]bool{}}
	if put == nil {
		return
	}
	for _, spec := range []struct{ fn, peek, peekPkg, pop string }{
		{"(*Channel).processInFlightQueue", "(*inFlightPqueue).PeekAndShift", "nsqd", "(*Channel).popInFlightMessage"},
		{"(*Channel).processDeferredQueue", "(*PriorityQueue).PeekAndShift", "internal/pqueue", "(*Channel).popDeferredMessage"},
	} {
		fn := c.Fn("nsqd", spec.fn)
		peek := c.Fn(spec.peekPkg, spec.peek)
		pop := c.Fn("nsqd", spec.pop)
		if fn == nil || peek == nil || pop == nil {
			continue
		}
		peeks := an.CallsTo(fn, peek)
		if len(peeks) == 0 {
			c.Bad(fn, "heap removal re-put", fn.Pos(), "scan does not call PeekAndShift", nil)
			continue
		}
		var popFail []an.Edge
		var popErrs []ssa.Value
		for _, pc := range an.CallsTo(fn, pop) {
			_, f := an.ErrEdges(pc.Value())
			popFail = append(popFail, f...)
			popErrs = append(popErrs, an.ResultN(pc.Value(), 1)...)
		}
		loops := an.NaturalLoops(fn)
		for _, pk := range peeks {
			res := an.ResultN(pk.Value(), 0)
			if len(res) != 1 {
				c.Und(fn, "heap removal re-put", pk.Pos(), "PeekAndShift result is not extracted once")
				continue
			}
			var nonNil []an.Edge
			for _, t := range an.NilTests(res[0]) {
				nonNil = append(nonNil, t.NonNil)
			}
			if len(nonNil) == 0 {
				c.Und(fn, "heap removal re-put", pk.Pos(), "PeekAndShift result is not nil-tested")
				continue
			}
			l := an.LoopContaining(loops, pk.Block())
			q := &an.PathQ{Fn: fn, StartEdges: nonNil, Tracked: []ssa.Value{res[0]}, Keep: popErrs, Sink: an.IsReturn,
				SinkEdge: func(e an.Edge, _ *an.PathState) bool { return l != nil && e.To == l.Header },
				CutEdge:  func(e an.Edge, _ *an.PathState) bool { return an.EdgeIn(e, popFail) },
				Cut: func(in ssa.Instruction, st *an.PathState) bool {
					// the pop's error carried in a variable and tested later: the path knows the race was lost
					for _, pe := range popErrs {
						if _, isC := st.ConstOf(pe); isC && st.NonNil(pe) {
							return true
						}
					}
					ci, ok := in.(ssa.CallInstruction)
					if !ok {
						return false
					}
					if an.IsCallTo(ci, put) && st.Has(arg(ci, 0)) && an.SameValue(recvArg(ci), fn.Params[0]) {
						return true
					}
					return scanPW.is(ci, st, fn)
				}}
			w, f := q.Find()
			if f {
				c.Bad(fn, "heap removal re-put", pk.Pos(), "a message removed from the deadline heap can be dropped: a path from the removal to the next iteration/return neither re-puts it on the channel nor loses the pop race", w)
			} else {
				c.OK(fn, "heap removal re-put", pk.Pos(), "")
			}
		}
	}
	// worker: both scans on the received channel
	worker := c.Fn("nsqd", "(*NSQD).queueScanWorker")
	inF := c.Fn("nsqd", "(*Channel).processInFlightQueue")
	defF := c.Fn("nsqd", "(*Channel).processDeferredQueue")
	chT := c.P.Named("nsqd", "Channel")
	if worker != nil && inF != nil && defF != nil {
		loops := an.NaturalLoops(worker)
		n := 0
		for _, sel := range an.Selects(worker) {
			for _, st := range an.SelectStates(sel) {
				if st.State.Dir != types.RecvOnly || st.Recv == nil {
					continue
				}
				pt, ok := an.ChanElem(st.State.Chan).(*types.Pointer)
				if !ok || !types.Identical(pt.Elem(), chT) {
					continue
				}
				n++
				l := an.LoopContaining(loops, sel.Block())
				for _, scan := range []*ssa.Function{inF, defF} {
					q := &an.PathQ{Fn: worker, StartEdges: st.Chosen, Tracked: []ssa.Value{st.Recv}, Sink: an.IsReturn,
						SinkEdge: func(e an.Edge, _ *an.PathState) bool { return l != nil && e.To == l.Header },
						Cut: func(in ssa.Instruction, ps *an.PathState) bool {
							ci, ok := in.(ssa.CallInstruction)
							return ok && an.IsCallTo(ci, scan) && ps.Has(recvArg(ci))
						}}
					w, f := q.Find()
					construct := "worker runs " + scan.Name()
					if f {
						c.Bad(worker, construct, st.Recv.Pos(), "the scan worker can finish a work item without running "+scan.Name()+" on the channel it received", w)
					} else {
						c.OK(worker, construct, st.Recv.Pos(), "")
					}
				}
			}
		}
		if n == 0 {
			c.Und(worker, "work receive", worker.Pos(), "no receive of *Channel found in queueScanWorker")
		}
	}
	// scan loop forwards every selected index
	loopFn := c.Fn("nsqd", "(*NSQD).queueScanLoop")
	if loopFn != nil {
		found := false
		loops := an.NaturalLoops(loopFn)
		an.Instrs(loopFn, func(in ssa.Instruction) {
			s, ok := in.(*ssa.Send)
			if !ok {
				return
			}
			pt, ok := an.ChanElem(s.Chan).(*types.Pointer)
			if !ok || !types.Identical(pt.Elem(), chT) {
				return
			}
			found = true
			l := an.LoopContaining(loops, s.Block())
			il, isIdx := (*an.IndexLoop)(nil), false
			if l != nil {
				il, isIdx = an.AsIndexLoop(l)
			}
			if !isIdx {
				c.Und(loopFn, "work dispatch loop", s.Pos(), "send of *Channel on workCh is not inside a recognised range loop")
				return
			}
			onlyEx, _ := il.OnlyExhaustionExit()
			q := &an.PathQ{Fn: loopFn, StartEdges: []an.Edge{{From: il.Header, To: il.Body}},
				SinkEdge: func(e an.Edge, _ *an.PathState) bool { return e.To == il.Header },
				Cut:      func(x ssa.Instruction, _ *an.PathState) bool { return x == in }}
			_, f := q.Find()
			c.Check(onlyEx && !f && il.WholeOK, loopFn, "work dispatch loop", s.Pos(), "every selected index is forwarded to a worker",
				"the dispatch loop can skip a selected channel (conditional send, break, or partial range)")
		})
		if !found {
			c.Bad(loopFn, "work dispatch loop", loopFn.Pos(), "queueScanLoop never sends a channel to the workers", nil)
		}
	}
}

func c01req(c *an.Ctx) {
	pop := c.Fn("nsqd", "(*Channel).popInFlightMessage")
	put := c.Fn("nsqd", "(*Channel).put")
	startDef := c.Fn("nsqd", "(*Channel).StartDeferredTimeout")
	pushIn := c.Fn("nsqd", "(*Channel).pushInFlightMessage")
	pushDef := c.Fn("nsqd", "(*Channel).pushDeferredMessage")
	exiting := c.Fn("nsqd", "(*Channel).Exiting")
	if pop == nil || put == nil || startDef == nil || pushIn == nil || pushDef == nil || exiting == nil {
		return
	}
	// "added to the deadline heap" is an effect (heap.Push on the field, or any helper that does it), not a helper's name
	addIn, addDef := heapInsert(c, "inFlightPQ"), heapInsert(c, "deferredPQ")
	if len(addIn.sites) == 0 {
		c.Anchor("an insert into nsqd.Channel.inFlightPQ")
		return
	}
	if len(addDef.sites) == 0 {
		c.Anchor("an insert into nsqd.Channel.deferredPQ")
		return
	}
	afterPop := func(fn *ssa.Function) (edges []an.Edge, tracked []ssa.Value, ok bool) {
		for _, pc := range an.CallsTo(fn, pop) {
			s, _ := an.ErrEdges(pc.Value())
			edges = append(edges, s...)
			tracked = append(tracked, an.ResultN(pc.Value(), 0)...)
		}
		return edges, tracked, len(edges) > 0 && len(tracked) > 0
	}
	// RequeueMessage
	if fn := c.Fn("nsqd", "(*Channel).RequeueMessage"); fn != nil {
		edges, tracked, ok := afterPop(fn)
		if !ok {
			c.Und(fn, "popped message re-inserted", fn.Pos(), "no checked popInFlightMessage call")
		} else {
			var exitingEdges []an.Edge
			for _, ec := range an.CallsTo(fn, exiting) {
				for _, t := range an.BoolTests(ec.Value()) {
					exitingEdges = append(exitingEdges, t.True)
				}
			}
			pw := &putWrappers{put: put, startDef: startDef, exiting: exiting, memo: map[*ssa.Function]bool{}}
			q := &an.PathQ{Fn: fn, StartEdges: edges, Tracked: tracked, Sink: an.IsReturn,
				CutEdge: func(e an.Edge, _ *an.PathState) bool { return an.EdgeIn(e, exitingEdges) },
				Cut: func(in ssa.Instruction, st *an.PathState) bool {
					ci, ok := in.(ssa.CallInstruction)
					if !ok {
						return false
					}
					if (an.IsCallTo(ci, put) || an.IsCallTo(ci, startDef)) && st.Has(arg(ci, 0)) {
						return true
					}
					return pw.is(ci, st, fn)
				}}
			w, f := q.Find()
			if f {
				c.Bad(fn, "popped message re-inserted", fn.Pos(), "after REQ removed the message from in-flight, a path returns without put or StartDeferredTimeout of that message (other than the channel-exiting arm): the message is lost", w)
			} else {
				c.OK(fn, "popped message re-inserted", fn.Pos(), "")
			}
		}
	}
	// TouchMessage
	if fn := c.Fn("nsqd", "(*Channel).TouchMessage"); fn != nil {
		edges, tracked, ok := afterPop(fn)
		if !ok {
			c.Und(fn, "touched message re-inserted", fn.Pos(), "no checked popInFlightMessage call")
		} else {
			q := &an.PathQ{Fn: fn, StartEdges: edges, Tracked: tracked, Sink: an.IsReturn,
				Cut: func(in ssa.Instruction, st *an.PathState) bool {
					ci, ok := in.(ssa.CallInstruction)
					return ok && an.IsCallTo(ci, pushIn) && st.Has(arg(ci, 0))
				}}
			w, f := q.Find()
			var pushSucc []an.Edge
			for _, pc := range an.CallsTo(fn, pushIn) {
				s, _ := an.ErrEdges(pc.Value())
				pushSucc = append(pushSucc, s...)
			}
			q2 := &an.PathQ{Fn: fn, StartEdges: pushSucc, Tracked: tracked, Sink: an.IsReturn,
				Cut: func(in ssa.Instruction, st *an.PathState) bool {
					return addIn.on(in, st.Has)
				}}
			w2, f2 := q2.Find()
			if f {
				c.Bad(fn, "touched message re-inserted", fn.Pos(), "after TOUCH popped the message a path returns without pushInFlightMessage of it", w)
			} else if f2 || len(pushSucc) == 0 {
				c.Bad(fn, "touched message re-inserted", fn.Pos(), "after TOUCH re-registered the message it is not added back to the deadline heap: it never times out", w2)
			} else {
				c.OK(fn, "touched message re-inserted", fn.Pos(), "")
			}
		}
	}
	// StartInFlightTimeout / StartDeferredTimeout: success return after push success + add to heap
	for _, spec := range []struct {
		name string
		push *ssa.Function
		add  *effect
	}{{"(*Channel).StartInFlightTimeout", pushIn, addIn}, {"(*Channel).StartDeferredTimeout", pushDef, addDef}} {
		fn := c.Fn("nsqd", spec.name)
		if fn == nil {
			continue
		}
		w, found, n := pathAvoidingSuccess(fn, sinkSuccessReturn, func(ci ssa.CallInstruction) bool { return an.IsCallTo(ci, spec.push) })
		var w2 []string
		q := &an.PathQ{Fn: fn, StartEntry: true, Sink: sinkSuccessReturn,
			Cut: func(in ssa.Instruction, _ *an.PathState) bool { return spec.add.is(in) }}
		w2, f2 := q.Find()
		if n == 0 || found {
			c.Bad(fn, "registered in map and heap", fn.Pos(), "returns nil without a successful "+spec.push.Name(), w)
		} else if f2 {
			c.Bad(fn, "registered in map and heap", fn.Pos(), "returns nil without adding the entry to the deadline heap: the timeout never fires", w2)
		} else {
			// the pushed object is (built from) the msg parameter
			good := true
			for _, pc := range an.CallsTo(fn, spec.push) {
				a := arg(pc, 0)
				if !isParam(a, fn, 1) && !itemOfParam(a, fn) {
					good = false
				}
			}
			c.Check(good, fn, "registered in map and heap", fn.Pos(), "", "the object registered is not (built from) the message parameter")
		}
	}
	// pushInFlightMessage / pushDeferredMessage: nil return only after the map insert
	for _, spec := range []struct{ name, field string }{{"(*Channel).pushInFlightMessage", "inFlightMessages"}, {"(*Channel).pushDeferredMessage", "deferredMessages"}} {
		fn := c.Fn("nsqd", spec.name)
		f := c.P.Field("nsqd", "Channel", spec.field)
		if fn == nil || f == nil {
			continue
		}
		q := &an.PathQ{Fn: fn, StartEntry: true, Sink: sinkSuccessReturn,
			Cut: func(in ssa.Instruction, _ *an.PathState) bool {
				mu, ok := in.(*ssa.MapUpdate)
				return ok && isLoadOfField(mu.Map, f) && isParam(mu.Value, fn, 1)
			}}
		w, found := q.Find()
		if found {
			c.Bad(fn, "nil return after map insert", fn.Pos(), "reports success without storing the entry in "+spec.field, w)
		} else {
			c.OK(fn, "nil return after map insert", fn.Pos(), "")
		}
	}
}

// itemOfParam: v is a freshly allocated pqueue.Item whose Value field was stored from param 1 of fn.
func itemOfParam(v ssa.Value, fn *ssa.Function) bool {
	al, ok := an.Strip(v).(*ssa.Alloc)
	if !ok {
		return false
	}
	for _, r := range an.Referrers(al) {
		fa, ok := r.(*ssa.FieldAddr)
		if !ok {
			continue
		}
		if f := an.FieldOf(fa); f == nil || f.Name() != "Value" {
			continue
		}
		for _, rr := range an.Referrers(fa) {
			if st, ok := rr.(*ssa.Store); ok && st.Addr == fa && isParam(st.Val, fn, 1) {
				return true
			}
		}
	}
	return false
}

var _ = token.NoPos

// putWrappers recognises methods that, like PutMessage, queue their message argument (put or
// StartDeferredTimeout of it) on every path except the channel-exiting arm.
type putWrappers struct {
	put, startDef, exiting *ssa.Function
	memo                   map[*ssa.Function]bool
}

func (pw *putWrappers) wraps(h *ssa.Function) bool {
	if h == nil || len(h.Blocks) == 0 || len(h.Params) < 2 {
		return false
	}
	if v, ok := pw.memo[h]; ok {
		return v
	}
	pw.memo[h] = false
	var hExit []an.Edge
	if pw.exiting != nil {
		for _, ec := range an.CallsTo(h, pw.exiting) {
			for _, t := range an.BoolTests(ec.Value()) {
				hExit = append(hExit, t.True)
			}
		}
	}
	hq := &an.PathQ{Fn: h, StartEntry: true, Tracked: []ssa.Value{h.Params[1]}, Sink: an.IsReturn,
		CutEdge: func(e an.Edge, _ *an.PathState) bool { return an.EdgeIn(e, hExit) },
		Cut: func(in ssa.Instruction, st *an.PathState) bool {
			ci, ok := in.(ssa.CallInstruction)
			return ok && (an.IsCallTo(ci, pw.put) || (pw.startDef != nil && an.IsCallTo(ci, pw.startDef))) && st.Has(arg(ci, 0))
		}}
	_, miss := hq.Find()
	pw.memo[h] = !miss
	return !miss
}

// is: ci calls such a wrapper on fn's own receiver with a tracked message.
func (pw *putWrappers) is(ci ssa.CallInstruction, st *an.PathState, fn *ssa.Function) bool {
	h := an.StaticCallee(ci)
	if h == nil || h == fn || h.Signature.Recv() == nil || len(ci.Common().Args) < 2 {
		return false
	}
	return st.Has(arg(ci, 0)) && an.SameValue(recvArg(ci), fn.Params[0]) && pw.wraps(h)
}
