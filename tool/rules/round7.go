package rules

import (
	"go/token"
	"go/types"
	"strings"

	"golang.org/x/tools/go/ssa"

	"nsqverif/an"
)

// Rules added after the seventh round of independently seeded changes (DESIGN.md §11.15).
func init() {
	for id, extra := range map[string]string{
		"C01": " (text) a text-mode /mpub body is the bytes of its line, whatever its length.",
		"C02": " (pump) what the delivery pump hands out is what it just received; (scan) the deadline scans re-put the very message they removed.",
		"C03": " (pausepath) pause vs unpause is decided by the route; (empty) the empty sequence of C08; (cls) CLS sets RDY 0.",
		"C04": " (notify) a timed-out message wakes its consumer's pump; (deferbase) the defer argument is a decimal number.",
		"C05": " (atomic) the metadata protocol of C06.",
		"C06": " (registrywriters) only the delete entry points remove a topic or channel from its registry.",
		"C07": " (readfull) size prefixes and bodies are read whole.",
		"C08": " (fanout) the pump token of a new channel is offered against exitChan; (ioloopexit) every way out of IOLoop unsubscribes the client.",
		"C09": " (eof) a line the peer did not terminate is not a command.",
		"C10": " (limits) binary /mpub uses the TCP limits; (pubeffect) /pub refuses a bad body before it looks the topic up; (atomicpub) nothing is refused after a put.",
		"C13": " (atomicpub) a publish that is refused has counted nothing; (cls) as C03.",
		"C14": " (create) /channel/create registers the channel and its topic on every path; (eof) as C09; (filter) /lookup filters what the registry returned.",
		"C15": " (eof) as C09; (lookupfilter) as C14.filter.",
		"C16": " (delete) a channel announces its deletion after it is marked exiting; (loopvar) no goroutine started in a loop shares the loop variable.",
		"C17": " (liveopts) every fan-out uses the address lists configured now; (cidr) the address the /config gate tests is the connection's.",
		"C18": " (liveopts) as C17; (loopvar) as C16.",
		"C19": " (topicname) <TOPIC> in a file name is the topic's full name.",
		"C20": " (loopvar) as C16; (filternum) a numeric field is compared by value.",
	} {
		p := Props[id]
		p.Explanation += extra
		Props[id] = p
	}
	has := func(subs ...string) func(string) bool {
		return func(n string) bool {
			for _, s := range subs {
				if strings.Contains(n, s) {
					return true
				}
			}
			return false
		}
	}
	// clauses decided under another property so far
	reg("C02.pump", "PATH", "the delivery pump registers and sends the message it received in this iteration (shared with C01.pump): a stale record decoded again is a redelivery after FIN", 5, c01pump)
	reg("C02.scan", "PATH", "the deadline scans re-put the message they removed, attempts and all (shared with C01.scan)", 2, only(c01scan, has("processDeferredQueue", "processInFlightQueue")))
	reg("C03.pausepath", "ORIG", "pause vs unpause is decided from req.URL.Path (shared with C10.pausepath)", 2, c10pausepath)
	reg("C03.empty", "SHAPE", "Channel.Empty clears the in-flight structures before it zeroes the consumers' counts (shared with C08.empty)", 2, c08empty)
	reg("C04.notify", "PATH", "TimedOutMessage wakes the pump of the consumer whose slot it freed (shared with C03.notify)", 1, only(c03notify, has("TimedOutMessage")))
	reg("C05.atomic", "PATH+CALLS", "PersistMetadata answers nil only after the document was written, fsynced and renamed (shared with C06.atomic)", 6, c06atomic)
	reg("C08.fanout", "PATH", "GetChannel offers the pump token in a select against exitChan (shared with C01.fanout)", 1, only(c01fanout, has("GetChannel")))
	reg("C08.ioloopexit", "PATH", "every return of IOLoop closes ExitChan and removes the client from its channel (shared with C09.dispatch)", 2, only(c09dispatch, has("IOLoop")))
	reg("C10.limits", "GUARD", "binary /mpub passes (MaxMsgSize, MaxBodySize) to readMPUB (shared with C09.limits)", 1, only(c09limits, has("doMPUB")))
	reg("C16.delete", "PATH", "Channel.exit notifies nsqlookupd after the exit flag is set (shared with C08.delete)", 1, only(c08delete, has("Channel).exit")))
	reg("C01.text", "ORIG", "text-mode /mpub bodies are read with ReadBytes: no line-length limit of a scanner applies (shared with C07.text)", 1, c07text)
	reg("C13.cls", "PATH", "CLS leaves the consumer at RDY 0, which is what /stats reports (shared with C03.cls)", 1, only(c03cls, has("StartClose")))
	reg("C15.lookupfilter", "ORIG", "/lookup filters the registry's answer itself (shared with C14.filter)", 2, only(c14filter, has("doLookup")))

	reg("C13.atomicpub", "PATH", "publish entry points return no error after a put succeeded: what was counted was acknowledged", 5, c13atomicpub)
	reg("C10.atomicpub", "PATH", "publish entry points return no error after a put succeeded (shared with C13.atomicpub)", 5, c13atomicpub)
	reg("C10.pubeffect", "PATH", "/pub decides every body refusal before it resolves (and creates) the topic", 1, c10pubeffect)
	reg("C04.deferbase", "SHAPE", "numeric request arguments in package nsqd are parsed as decimal", 1, c04deferbase)
	reg("C06.registrywriters", "CALLS", "entries leave NSQD.topicMap / Topic.channelMap only in DeleteExistingTopic / DeleteExistingChannel", 2, c06registrywriters)
	reg("C07.readfull", "CALLS", "no partial read: only Read implementations call a Read method in nsqd, nsqlookupd and internal/protocol", 1, c07readfull)
	reg("C14.create", "PATH", "/channel/create and /topic/create add their registrations on every successful path", 3, c14create)
	reg("C09.eof", "PATH", "IOLoop does not execute after the line read failed", 1, ioloopEOF("nsqd", "(*protocolV2).IOLoop", "(*protocolV2).Exec"))
	reg("C14.eof", "PATH", "IOLoop does not execute after the line read failed", 1, ioloopEOF("nsqlookupd", "(*LookupProtocolV1).IOLoop", "(*LookupProtocolV1).Exec"))
	reg("C15.eof", "PATH", "IOLoop does not execute after the line read failed (shared with C14.eof)", 1, ioloopEOF("nsqlookupd", "(*LookupProtocolV1).IOLoop", "(*LookupProtocolV1).Exec"))
	reg("C16.loopvar", "ORIG", "goroutines started in a loop get the loop variable as an argument (go.mod says go 1.17: one variable per loop)", 1, loopvar("internal/clusterinfo", "nsqd"))
	reg("C18.loopvar", "ORIG", "goroutines started in a loop get the loop variable as an argument (shared with C16.loopvar)", 1, loopvar("internal/clusterinfo", "nsqadmin"))
	reg("C20.loopvar", "ORIG", "goroutines started in a loop get the loop variable as an argument (shared with C16.loopvar)", 0, loopvar("apps/to_nsq", "apps/nsq_to_nsq", "apps/nsq_to_http"))
	reg("C17.liveopts", "ORIG", "address lists given to clusterinfo are read from getOpts() in the handler", 20, c17liveopts)
	reg("C18.liveopts", "ORIG", "address lists given to clusterinfo are read from getOpts() in the handler (shared with C17.liveopts)", 20, c17liveopts)
	reg("C19.topicname", "ORIG", "computeFilenameFormat substitutes <TOPIC> with the topic name it was given", 1, c19topicname)
	reg("C20.filternum", "ORIG", "nsq_to_nsq compares a numeric JSON field with the parsed number of --require-json-value", 1, c20filternum)
}

// ---- C13.atomicpub -------------------------------------------------------------------------------------------

// failureReturn: a return whose error result is not nil on this path.
func failureReturn(in ssa.Instruction, st *an.PathState) bool {
	r, ok := in.(*ssa.Return)
	if !ok || len(r.Results) == 0 {
		return false
	}
	v := r.Results[len(r.Results)-1]
	if !an.IsErrorType(v.Type()) {
		return false
	}
	v = an.Resolve(st.Selected(v))
	if an.IsNilConst(v) {
		return false
	}
	if c, ok := st.ConstOf(v); ok && c.IsNil() {
		return false
	}
	return true
}

func c13atomicpub(c *an.Ctx) {
	putM := c.Fn("nsqd", "(*Topic).PutMessage")
	putMs := c.Fn("nsqd", "(*Topic).PutMessages")
	if putM == nil || putMs == nil {
		return
	}
	for _, name := range []string{"(*httpServer).doPUB", "(*httpServer).doMPUB", "(*protocolV2).PUB", "(*protocolV2).MPUB", "(*protocolV2).DPUB"} {
		fn := c.Fn("nsqd", name)
		if fn == nil {
			continue
		}
		var succ []an.Edge
		var after []ssa.Instruction
		calls := an.CallsIn(fn, func(ci ssa.CallInstruction) bool { return an.IsCallTo(ci, putM) || an.IsCallTo(ci, putMs) })
		for _, ci := range calls {
			var s []an.Edge
			if v := ci.Value(); v != nil {
				s, _ = an.ErrEdgesPhi(v)
			}
			if len(s) == 0 {
				after = append(after, ci.(ssa.Instruction))
			}
			succ = append(succ, s...)
		}
		if len(calls) == 0 {
			c.Bad(fn, "nothing refused after a put", fn.Pos(), an.FnName(fn)+" never puts a message", nil)
			continue
		}
		q := &an.PathQ{Fn: fn, StartEdges: succ, StartAfter: after, AllAlias: true, Sink: failureReturn}
		w, f := q.Find()
		if f {
			c.Bad(fn, "nothing refused after a put", calls[0].Pos(), an.FnName(fn)+" can answer with an error after messages were put on the topic: they are counted (message_count, depth) and delivered although the publish was refused, and a client that retries duplicates them", w)
		} else {
			c.OK(fn, "nothing refused after a put", calls[0].Pos(), "")
		}
	}
}

// ---- C10.pubeffect -------------------------------------------------------------------------------------------

func c10pubeffect(c *an.Ctx) {
	fn := c.Fn("nsqd", "(*httpServer).doPUB")
	getTopic := c.Fn("nsqd", "(*NSQD).GetTopic")
	if fn == nil || getTopic == nil {
		return
	}
	// the calls that resolve the topic: GetTopic itself or a helper of httpServer that calls it
	var after []ssa.Instruction
	for _, ci := range an.CallsIn(fn, func(ssa.CallInstruction) bool { return true }) {
		callee := an.StaticCallee(ci)
		if callee == nil {
			continue
		}
		if callee == getTopic || (callee.Pkg == fn.Pkg && len(an.CallsTo(callee, getTopic)) > 0) {
			after = append(after, ci.(ssa.Instruction))
		}
	}
	if len(after) == 0 {
		c.Bad(fn, "body refused before the topic exists", fn.Pos(), "doPUB does not resolve its topic through NSQD.GetTopic", nil)
		return
	}
	q := &an.PathQ{Fn: fn, StartAfter: after, AllAlias: true, Sink: func(in ssa.Instruction, st *an.PathState) bool {
		r, ok := in.(*ssa.Return)
		if !ok || len(r.Results) == 0 {
			return false
		}
		code, text, ok := httpErrOf(an.Resolve(st.Selected(r.Results[len(r.Results)-1])))
		return ok && (code == 413 || code == 500 || strings.HasPrefix(text, "MSG_"))
	}}
	w, f := q.Find()
	if f {
		c.Bad(fn, "body refused before the topic exists", after[0].Pos(), "/pub can refuse the body (too big, empty, unreadable) after GetTopic ran: a refused publish creates the topic (TCP PUB resolves the topic only once the body is valid), and a slow upload holds a topic that may be deleted meanwhile", w)
	} else {
		c.OK(fn, "body refused before the topic exists", after[0].Pos(), "")
	}
}

// ---- C04.deferbase -------------------------------------------------------------------------------------------

func c04deferbase(c *an.Ctx) {
	n := 0
	for _, fn := range c.P.PkgFuncs("nsqd") {
		for _, ci := range an.CallsIn(fn, func(ci ssa.CallInstruction) bool {
			return an.StdCallee(ci, "strconv", "ParseInt") || an.StdCallee(ci, "strconv", "ParseUint")
		}) {
			n++
			base, isC := an.ConstInt(ci.Common().Args[1])
			c.Check(isC && base == 10, fn, "decimal "+an.StaticCallee(ci).Name(), ci.Pos(), "",
				"a request argument is parsed with base "+sprintf("%d", base)+": base 0 reads 010 as octal and accepts 0x10, 0b11 and 1_000, so `defer=01000` delays 512 ms and the TCP and HTTP spellings of one number disagree")
		}
	}
	c.Check(n >= 1, nil, "numeric request arguments found", token.NoPos, "", "package nsqd no longer parses a request argument with strconv.ParseInt (the defer argument of /pub)")
}

// ---- C06.registrywriters -------------------------------------------------------------------------------------

func c06registrywriters(c *an.Ctx) {
	for _, spec := range []struct{ owner, field, allowed string }{
		{"NSQD", "topicMap", "(*nsqd.NSQD).DeleteExistingTopic"},
		{"Topic", "channelMap", "(*nsqd.Topic).DeleteExistingChannel|(*nsqd.Topic).exit"}, // exit(deleted): the topic itself is being deleted, DeleteExistingTopic persists
	} {
		f := c.P.Field("nsqd", spec.owner, spec.field)
		if f == nil {
			c.Anchor("nsqd." + spec.owner + "." + spec.field)
			continue
		}
		n := 0
		for _, fn := range c.P.PkgFuncs("nsqd") {
			an.Instrs(fn, func(in ssa.Instruction) {
				call, ok := isBuiltinCall(in, "delete")
				if !ok || !isLoadOfField(call.Call.Args[0], f) {
					return
				}
				n++
				c.Check(contains(strings.Split(spec.allowed, "|"), an.FnName(fn)), fn, "delete from "+spec.field, in.Pos(), "",
					an.FnName(fn)+" removes an entry from "+spec.owner+"."+spec.field+": outside "+spec.allowed+" nothing follows the removal with the persist that records it, and a persist that runs later (Notify's, Exit's) writes a document without the entry – after Exit emptied the map, a late persist replaces nsqd.dat with an empty topic list")
			})
		}
		c.Check(n >= 1, nil, "delete site of "+spec.field, token.NoPos, "", "no function deletes from "+spec.owner+"."+spec.field)
	}
}

// ---- C07.readfull --------------------------------------------------------------------------------------------

func c07readfull(c *an.Ctx) {
	n := 0
	for _, pkg := range []string{"nsqd", "nsqlookupd", "internal/protocol"} {
		for _, fn := range c.P.PkgFuncs(pkg) {
			for _, ci := range an.CallsIn(fn, func(ci ssa.CallInstruction) bool {
				cm := ci.Common()
				var sig *types.Signature
				name := ""
				if cm.IsInvoke() {
					name, sig = cm.Method.Name(), cm.Method.Type().(*types.Signature)
				} else if f := an.StaticCallee(ci); f != nil && f.Signature.Recv() != nil {
					name, sig = f.Name(), f.Signature
				}
				if name != "Read" || sig == nil || sig.Params().Len() != 1 || sig.Results().Len() != 2 {
					return false
				}
				sl, ok := sig.Params().At(0).Type().Underlying().(*types.Slice)
				return ok && types.Identical(sl.Elem(), types.Typ[types.Byte])
			}) {
				n++
				isForwarder := fn.Name() == "Read" && fn.Signature.Recv() != nil
				c.Check(isForwarder, fn, "whole reads only", ci.Pos(), "",
					an.FnName(fn)+" calls Read directly: Read may return fewer bytes than asked (a size prefix that straddles the refill of the 16 KiB connection buffer comes in two pieces), the remainder of the buffer keeps the previous value and the frame is decoded with a wrong length; io.ReadFull is the whole read")
			}
		}
	}
	c.Check(n >= 1, nil, "Read forwarder found", token.NoPos, "", "no Read call found at all (lookupPeer.Read forwards to its connection)")
}

// ---- C14.create ----------------------------------------------------------------------------------------------

func c14create(c *an.Ctx) {
	add := c.Fn("nsqlookupd", "(*RegistrationDB).AddRegistration")
	if add == nil {
		return
	}
	catF := c.P.Field("nsqlookupd", "Registration", "Category")
	// category of the Registration passed to AddRegistration on this path: the key is a local struct whose Category
	// field was last stored with a constant
	catOf := func(ci ssa.CallInstruction) map[string]bool {
		out := map[string]bool{}
		v := arg(ci, 0)
		u, ok := v.(*ssa.UnOp)
		if !ok {
			return out
		}
		al, ok := u.X.(*ssa.Alloc)
		if !ok {
			return out
		}
		// the store to Category that reaches this load: the last one before it in program order within dominating blocks
		var best *ssa.Store
		for _, r := range an.Referrers(al) {
			fa, ok := r.(*ssa.FieldAddr)
			if !ok || an.FieldOf(fa) != catF {
				continue
			}
			for _, rr := range an.Referrers(fa) {
				st, ok := rr.(*ssa.Store)
				if !ok || st.Addr != ssa.Value(fa) {
					continue
				}
				if st.Block() == u.Block() {
					if instrIndex(st) < instrIndex(u) && (best == nil || best.Block() != u.Block() || instrIndex(st) > instrIndex(best)) {
						best = st
					}
				} else if st.Block().Dominates(u.Block()) && (best == nil || (best.Block() != u.Block() && best.Block().Dominates(st.Block()))) {
					best = st
				}
			}
		}
		if best != nil {
			if s, ok := an.ConstString(best.Val); ok {
				out[s] = true
			}
		}
		return out
	}
	for _, spec := range []struct {
		h    string
		cats []string
	}{{"doCreateTopic", []string{"topic"}}, {"doCreateChannel", []string{"channel", "topic"}}} {
		fn := c.Fn("nsqlookupd", "(*httpServer)."+spec.h)
		if fn == nil {
			continue
		}
		for _, cat := range spec.cats {
			cat := cat
			q := &an.PathQ{Fn: fn, StartEntry: true, Sink: sinkSuccessReturn,
				Cut: func(in ssa.Instruction, _ *an.PathState) bool {
					ci, ok := in.(ssa.CallInstruction)
					return ok && an.IsCallTo(ci, add) && catOf(ci)[cat]
				}}
			w, f := q.Find()
			if f {
				c.Bad(fn, "registers the "+cat+" key", fn.Pos(), spec.h+" can answer 200 without having added the \""+cat+"\" registration: a channel key does not imply its topic key (an nsqd that unregistered an ephemeral topic leaves the durable channel key behind), so /topics and /lookup do not show what was just created", w)
			} else {
				c.OK(fn, "registers the "+cat+" key", fn.Pos(), "")
			}
		}
	}
}

func instrIndex(in ssa.Instruction) int {
	for i, x := range in.Block().Instrs {
		if x == in {
			return i
		}
	}
	return -1
}

// ---- C09/C14/C15.eof -----------------------------------------------------------------------------------------

func ioloopEOF(pkg, loopName, execName string) func(*an.Ctx) {
	return func(c *an.Ctx) {
		fn := c.Fn(pkg, loopName)
		exec := c.Fn(pkg, execName)
		if fn == nil || exec == nil {
			return
		}
		var fail []an.Edge
		var read ssa.CallInstruction
		for _, ci := range an.CallsIn(fn, func(ci ssa.CallInstruction) bool {
			return an.StdCallee(ci, "bufio", "(*Reader).ReadString") || an.StdCallee(ci, "bufio", "(*Reader).ReadSlice") || an.StdCallee(ci, "bufio", "(*Reader).ReadBytes") || an.StdCallee(ci, "bufio", "(*Reader).ReadLine")
		}) {
			read = ci
			_, f := an.ErrEdgesPhi(ci.Value())
			fail = append(fail, f...)
		}
		if read == nil || len(fail) == 0 {
			c.Und(fn, "no command after a failed read", fn.Pos(), "the line read of IOLoop, or the test of its error, was not found")
			return
		}
		q := &an.PathQ{Fn: fn, StartEdges: fail, Sink: func(in ssa.Instruction, _ *an.PathState) bool { return isCallToOn(in, exec, nil) },
			Cut: func(in ssa.Instruction, _ *an.PathState) bool { return in == read.(ssa.Instruction) }}
		w, f := q.Find()
		if f {
			c.Bad(fn, "no command after a failed read", read.Pos(), "IOLoop can execute what a failed line read returned: at EOF that is a line the peer never terminated – a command cut short by a dying connection (`REGISTER orders` of `REGISTER orders_eu c`) takes effect on a prefix of its text", w)
		} else {
			c.OK(fn, "no command after a failed read", read.Pos(), "")
		}
	}
}

// ---- loopvar -------------------------------------------------------------------------------------------------

// loopvar: a `go func(){…}()` (or defer-less closure started with go) inside a loop must not capture a variable that the
// loop re-assigns on every iteration. The module declares go 1.17, so `for _, x := range xs` has ONE x; go/ssa models
// exactly that: the captured variable is one Alloc outside the loop, stored to in the loop.
func loopvar(pkgs ...string) func(*an.Ctx) {
	return func(c *an.Ctx) {
		n := 0
		for _, pkg := range pkgs {
			for _, fn := range c.P.PkgFuncs(pkg) {
				loops := an.NaturalLoops(fn)
				if len(loops) == 0 {
					continue
				}
				an.Instrs(fn, func(in ssa.Instruction) {
					g, ok := in.(*ssa.Go)
					if !ok {
						return
					}
					mc, ok := g.Call.Value.(*ssa.MakeClosure)
					if !ok {
						return
					}
					l := an.LoopContaining(loops, g.Block())
					if l == nil {
						return
					}
					n++
					bad := ""
					for _, b := range mc.Bindings {
						al, ok := b.(*ssa.Alloc)
						if !ok || l.Blocks[al.Block()] {
							continue // allocated per iteration (or not a variable cell)
						}
						for _, r := range an.Referrers(al) {
							if st, ok := r.(*ssa.Store); ok && st.Addr == ssa.Value(al) && l.Blocks[st.Block()] {
								bad = al.Comment
							}
						}
					}
					c.Check(bad == "", fn, "goroutine in a loop owns its inputs", g.Pos(), "",
						"the goroutine started here captures `"+bad+"`, which the enclosing loop overwrites on every iteration (one variable per loop under go 1.17): by the time the goroutines run they all see the last element – every query goes to the last address, every record to the last producer")
				})
			}
		}
		_ = n
	}
}

// ---- C17.liveopts --------------------------------------------------------------------------------------------

func c17liveopts(c *an.Ctx) {
	getOpts := c.Fn("nsqadmin", "(*NSQAdmin).getOpts")
	if getOpts == nil {
		return
	}
	lf := c.P.Field("nsqadmin", "Options", "NSQLookupdHTTPAddresses")
	nf := c.P.Field("nsqadmin", "Options", "NSQDHTTPAddresses")
	if lf == nil || nf == nil {
		c.Anchor("nsqadmin.Options address lists")
		return
	}
	n := 0
	for _, fn := range c.P.PkgFuncs("nsqadmin") {
		for _, ci := range an.CallsIn(fn, func(ci ssa.CallInstruction) bool {
			f := an.StaticCallee(ci)
			return f != nil && f.Pkg != nil && f.Pkg.Pkg.Path() == an.ModPath+"/internal/clusterinfo" && f.Signature.Recv() != nil
		}) {
			callee := an.StaticCallee(ci)
			params := callee.Signature.Params()
			for i := 0; i < params.Len(); i++ {
				sl, ok := params.At(i).Type().Underlying().(*types.Slice)
				if !ok || !types.Identical(sl.Elem(), types.Typ[types.String]) {
					continue
				}
				pn := params.At(i).Name()
				if !strings.Contains(strings.ToLower(pn), "addr") {
					continue
				}
				n++
				a := arg(ci, i)
				ok = an.OriginsAll(a, func(o ssa.Value) bool {
					f, base := an.LoadedField(o)
					if f != lf && f != nf {
						return false
					}
					return an.OriginsAll(base, func(b ssa.Value) bool { return an.CallResultOf(b, getOpts) != nil })
				})
				c.Check(ok, fn, "live "+pn+" for "+callee.Name(), ci.Pos(), "",
					an.FnName(fn)+" gives "+callee.Name()+" an address list that is not read from getOpts() here: /config can replace nsqlookupd_http_addresses at run time, and a list captured earlier (at construction) keeps sending admin actions and queries to the old set – new nsqlookupds never hear of a delete, retired ones still do")
			}
		}
	}
	c.Check(n >= 20, nil, "address-list arguments found", token.NoPos, "", sprintf("only %d address-list arguments to clusterinfo found in nsqadmin (expected at least 20)", n))
}

// ---- C19.topicname -------------------------------------------------------------------------------------------

func c19topicname(c *an.Ctx) {
	fn := c.Fn("apps/nsq_to_file", "computeFilenameFormat")
	if fn == nil {
		return
	}
	n := 0
	for _, ci := range an.CallsIn(fn, func(ci ssa.CallInstruction) bool {
		return an.StdCallee(ci, "strings", "Replace") || an.StdCallee(ci, "strings", "ReplaceAll")
	}) {
		if s, ok := an.ConstString(ci.Common().Args[1]); !ok || s != "<TOPIC>" {
			continue
		}
		n++
		repl := an.Strip(ci.Common().Args[2])
		isTopic := false
		for i, p := range fn.Params {
			if ssa.Value(p) == repl && p.Name() == "topic" {
				isTopic = true
			}
			_ = i
		}
		c.Check(isTopic, fn, "<TOPIC> is the topic name", ci.Pos(), "",
			"<TOPIC> is replaced by something other than the topic name itself: two topics that differ only in what was dropped (orders and orders#ephemeral) get the same file name, both loggers append to it, and as a body and its newline are two writes the records interleave")
	}
	c.Check(n == 1, fn, "<TOPIC> substituted once", fn.Pos(), "", sprintf("computeFilenameFormat substitutes <TOPIC> %d times", n))
}

// ---- C20.filternum -------------------------------------------------------------------------------------------

func c20filternum(c *an.Ctx) {
	fn := c.Fn("apps/nsq_to_nsq", "(*PublishHandler).shouldPassMessage")
	if fn == nil {
		return
	}
	ok := false
	an.Instrs(fn, func(in ssa.Instruction) {
		b, isB := in.(*ssa.BinOp)
		if !isB || (b.Op != token.NEQ && b.Op != token.EQL) {
			return
		}
		bt, isBasic := b.X.Type().Underlying().(*types.Basic)
		if !isBasic || bt.Kind() != types.Float64 {
			return
		}
		// one side: the field's value asserted to float64; other side: from strconv.ParseFloat
		fromAssert := func(v ssa.Value) bool {
			if ex, isEx := v.(*ssa.Extract); isEx {
				v = ex.Tuple
			}
			_, isTA := v.(*ssa.TypeAssert)
			return isTA
		}
		fromParse := func(v ssa.Value) bool {
			found := false
			for _, o := range an.Origins(v) {
				if ex, isEx := o.(*ssa.Extract); isEx {
					if call, isCall := ex.Tuple.(*ssa.Call); isCall && an.StdCallee(call, "strconv", "ParseFloat") {
						found = true
					}
				}
				if f, _ := an.LoadedField(o); f != nil && f.Name() == "requireJSONNumber" {
					found = true
				}
			}
			return found
		}
		if (fromAssert(b.X) && fromParse(b.Y)) || (fromAssert(b.Y) && fromParse(b.X)) {
			ok = true
		}
	})
	c.Check(ok, fn, "numbers compared by value", fn.Pos(), "", "shouldPassMessage does not compare a float64 field with strconv.ParseFloat(--require-json-value): a textual comparison drops 1000000 (printed 1e+06), 2.0 and 1e3, and the dropped message is finished at the source without ever being published")
}
