// nsqcheck decides the structural clauses of properties C01..C20 on the current /repo tree.
package main

import (
	"crypto/sha1"
	"encoding/json"
	"flag"
	"fmt"
	"os"
	"os/exec"
	"path/filepath"
	"sort"
	"strconv"
	"strings"
	"sync"
	"time"

	"nsqverif/an"
	"nsqverif/rules"
)

type knownFinding struct {
	Property string `json:"property"`
	Rule     string `json:"rule"`
	Key      string `json:"key"`
	Status   string `json:"status"` // open | fixed
	Commit   string `json:"commit,omitempty"`
	What     string `json:"what"`
}

type mutant struct {
	ID       string `json:"id"`
	Property string `json:"property"`
	Rule     string `json:"rule"` // rule expected to report (prefix match), "" = any rule of the property
	File     string `json:"file"` // repo-relative
	Find     string `json:"find"` // must occur exactly once
	Replace  string `json:"replace"`
	Expect   string `json:"expect"` // "violation" (default) | "pass"
	Note     string `json:"note,omitempty"`
	Patch    string `json:"patch,omitempty"` // unified diff, path relative to the verification root (seeded changes)
	Edits    []struct {
		File    string `json:"file"`
		Find    string `json:"find"`
		Replace string `json:"replace"`
	} `json:"edits,omitempty"`
}

type mutantResult struct {
	ID     string   `json:"id"`
	Status string   `json:"status"` // killed | survived | stale | invalid | pass-ok | pass-alarm
	By     []string `json:"by,omitempty"`
	Detail string   `json:"detail,omitempty"`
}

func main() {
	prop := flag.String("prop", "", "property id (C01..C20)")
	tier := flag.String("tier", "quick", "quick | thorough")
	repo := flag.String("repo", "/repo", "repository root")
	verif := flag.String("verif", "/verif", "verification root")
	explain := flag.String("explain", "", "replay file to re-run")
	runMut := flag.String("runmutant", "", "(internal) run one mutant file and print a JSON result")
	listRules := flag.Bool("rules", false, "list registered rules")
	verbose := flag.Bool("v", false, "print every obligation")
	goos := flag.String("goos", "linux", "GOOS")
	goarch := flag.String("goarch", "amd64", "GOARCH")
	cfgOnly := flag.Bool("cfgonly", false, "(internal) run the property's rules in one extra build configuration and print JSON")
	matrix := flag.String("matrix", "", "apply a unified diff as an overlay and print, per property, the obligations that do not discharge")
	genManifest := flag.Bool("genmanifest", false, "write MANIFEST.json from the registered rules")
	dump := flag.String("dump", "", "debug: dump SSA of pkg:func (e.g. nsqd:(*Topic).put)")
	genBaseline := flag.Bool("genbaseline", false, "write baseline_funcs.txt (the functions of the current tree) into the verification root")
	showNorm := flag.String("shownorm", "", "debug: apply a patch/mutant as overlay, normalise, and print the normalised files")
	flag.Parse()
	if *genBaseline {
		set := map[string]bool{}
		info := map[string]string{}
		fields := map[string]bool{}
		for _, cfg := range [][2]string{{"linux", "amd64"}, {"linux", "386"}, {"windows", "amd64"}, {"illumos", "amd64"}} {
			p, err := an.Load(*repo, cfg[0], cfg[1], nil)
			if err != nil {
				fmt.Fprintln(os.Stderr, err)
				os.Exit(2)
			}
			for _, k := range an.BaselineKeys(p.Roots) {
				set[k] = true
			}
			for _, l := range an.BaselineFieldLines(p.Roots) {
				fields[l] = true
			}
			for k, v := range an.BaselineLines(p.Roots) {
				if _, ok := info[k]; !ok {
					info[k] = v
				}
			}
		}
		var keys []string
		for k := range set {
			keys = append(keys, k)
		}
		sort.Strings(keys)
		for i, k := range keys {
			if v, ok := info[k]; ok {
				keys[i] = k + "\t" + v
			}
		}
		var fl []string
		for l := range fields {
			fl = append(fl, l)
		}
		sort.Strings(fl)
		nfuncs := len(keys)
		keys = append(keys, fl...)
		hdr := "# functions declared in non-test files of the pinned tree (union over linux/amd64, linux/386, windows/amd64, illumos/amd64)\n# a function NOT listed here is treated as an extracted helper and inlined before analysis (tool/an/normalize.go)\n# columns: key, package, flattened signature, display name – used to recognise a renamed function (tool/an/rename.go)\n"
		os.WriteFile(filepath.Join(*verif, "baseline_funcs.txt"), []byte(hdr+strings.Join(keys, "\n")+"\n"), 0o644)
		fmt.Println(nfuncs, "functions,", len(fl), "fields")
		return
	}
	if err := an.LoadBaseline(filepath.Join(*verif, "baseline_funcs.txt")); err != nil {
		fmt.Fprintln(os.Stderr, "warning: no baseline_funcs.txt, helper inlining disabled:", err)
	}
	if os.Getenv("VERIF_NORMLOG") != "" {
		an.NormalizeLog = func(s string) { fmt.Fprintln(os.Stderr, "normalize:", s) }
	}
	if *showNorm != "" {
		os.Exit(runShowNorm(*showNorm, *repo, *verif))
	}
	if *dump != "" {
		p, err := an.Load(*repo, *goos, *goarch, nil)
		if err != nil {
			fmt.Fprintln(os.Stderr, err)
			os.Exit(2)
		}
		i := strings.Index(*dump, ":")
		fn := p.Func((*dump)[:i], (*dump)[i+1:])
		if fn == nil {
			fmt.Fprintln(os.Stderr, "not found")
			os.Exit(2)
		}
		for _, f := range an.WithAnon(fn) {
			f.WriteTo(os.Stdout)
		}
		return
	}

	if *genManifest {
		writeManifest(*verif)
		return
	}
	if *listRules {
		for _, r := range an.AllRules() {
			fmt.Printf("%-18s %-6s floor=%d sweep=%v  %s\n", r.ID, r.Engine, r.Floor, r.Sweep, r.Doc)
		}
		return
	}
	if *runMut != "" {
		os.Exit(runMutantChild(*runMut, *repo, *verif))
	}
	if *matrix != "" {
		os.Exit(runMatrix(*matrix, *repo, *verif))
	}
	if *explain != "" {
		os.Exit(doExplain(*explain, *repo, *verif))
	}
	if *prop == "" {
		fmt.Fprintln(os.Stderr, "usage: nsqcheck -prop Cxx [-tier quick|thorough]")
		os.Exit(2)
	}
	if *cfgOnly {
		os.Exit(runConfigChild(*prop, *repo, *verif, *goos, *goarch))
	}
	os.Exit(runProperty(*prop, *tier, *repo, *verif, *verbose))
}

func loadKnown(verif string) []knownFinding {
	var kf []knownFinding
	b, err := os.ReadFile(filepath.Join(verif, "known_findings.json"))
	if err != nil {
		return nil
	}
	if err := json.Unmarshal(b, &kf); err != nil {
		fmt.Fprintf(os.Stderr, "known_findings.json: %v\n", err)
		os.Exit(2)
	}
	return kf
}

// evaluate runs the rules of prop on p and marks known findings.
func evaluate(p *an.Prog, prop string, sweeps bool, known []knownFinding) (obs []an.Ob, fns []string, nrules int) {
	fset := map[string]bool{}
	for _, r := range an.RulesFor(prop) {
		if r.Sweep && !sweeps {
			continue
		}
		nrules++
		t0 := time.Now()
		o, f := an.RunRule(p, r)
		if os.Getenv("VERIF_TIMING") != "" {
			fmt.Fprintf(os.Stderr, "timing %s %.2fs\n", r.ID, time.Since(t0).Seconds())
		}
		obs = append(obs, o...)
		for _, x := range f {
			fset[x] = true
		}
	}
	for i := range obs {
		if obs[i].Verdict == an.Discharged {
			continue
		}
		for _, k := range known {
			if k.Status == "open" && k.Property == prop && k.Key == obs[i].Key {
				obs[i].Known = k.What
			}
		}
	}
	for f := range fset {
		fns = append(fns, f)
	}
	sort.Strings(fns)
	return
}

func runProperty(prop, tier, repo, verif string, verbose bool) int {
	start := time.Now()
	seed, _ := strconv.Atoi(os.Getenv("VERIF_SEED"))
	info, ok := rules.Props[prop]
	if !ok {
		fmt.Fprintf(os.Stderr, "unknown property %s\n", prop)
		return 2
	}
	if len(an.RulesFor(prop)) == 0 {
		fmt.Fprintf(os.Stderr, "property %s has no rules registered (not claimed)\n", prop)
		return 2
	}
	known := loadKnown(verif)
	p, err := an.Load(repo, "linux", "amd64", nil)
	evDir := filepath.Join(verif, "evidence")
	os.MkdirAll(filepath.Join(evDir, "violations"), 0o755)
	if err != nil {
		// A tree that does not load cannot be analysed: that is a failed check, not a pass.
		fmt.Printf("cannot analyse %s: %v\n", repo, err)
		replay := writeReplay(evDir, prop, an.Ob{Property: prop, Rule: prop + ".load", Key: prop + ".load|-|load", Verdict: an.Undecided, Msg: err.Error()})
		writeEvidence(evDir, prop, tier, seed, info, nil, nil, 0, nil, nil, time.Since(start), 1, nil)
		fmt.Printf("VIOLATION property=%s replay=%s\n", prop, replay)
		return 1
	}
	thorough := tier == "thorough"
	obs, fns, nrules := evaluate(p, prop, thorough, known)

	var cfgResults []map[string]interface{}
	var mres []mutantResult
	if thorough {
		cfgResults = runOtherConfigs(prop, repo, verif, &obs)
		mres = runMutants(prop, repo, verif, seed)
	}

	nviol := 0
	sort.SliceStable(obs, func(i, j int) bool { return obs[i].Key < obs[j].Key })
	var lines []string
	for _, o := range obs {
		if verbose {
			fmt.Print(o.Describe())
		}
		if o.Verdict == an.Discharged {
			continue
		}
		if o.Known != "" {
			lines = append(lines, fmt.Sprintf("KNOWN-FINDING: property=%s %s [%s at %s]", prop, o.Known, o.Key, o.Pos))
			continue
		}
		if !verbose {
			fmt.Print(o.Describe())
		}
		replay := writeReplay(evDir, prop, o)
		lines = append(lines, fmt.Sprintf("VIOLATION property=%s replay=%s", prop, replay))
		nviol++
	}
	writeEvidence(evDir, prop, tier, seed, info, obs, fns, nrules, cfgResults, mres, time.Since(start), nviol, p)
	nd := 0
	for _, o := range obs {
		if o.Verdict == an.Discharged {
			nd++
		}
	}
	fmt.Printf("%s %s: %d rules, %d obligations, %d discharged, %d violations, %d known findings (%.1fs, %s)\n",
		prop, tier, nrules, len(obs), nd, nviol, len(lines)-nviol, time.Since(start).Seconds(), p.Config)
	for _, m := range mres {
		if m.Status == "survived" || m.Status == "pass-alarm" || m.Status == "invalid" {
			fmt.Printf("SELFTEST-WARNING mutant %s: %s %s\n", m.ID, m.Status, m.Detail)
		}
	}
	for _, l := range lines {
		fmt.Println(l)
	}
	if nviol > 0 {
		return 1
	}
	return 0
}

func writeReplay(evDir, prop string, o an.Ob) string {
	h := sha1.Sum([]byte(o.Key))
	name := filepath.Join(evDir, "violations", fmt.Sprintf("%s-%x.json", prop, h[:5]))
	b, _ := json.MarshalIndent(o, "", " ")
	os.WriteFile(name, b, 0o644)
	return name
}

func doExplain(file, repo, verif string) int {
	b, err := os.ReadFile(file)
	if err != nil {
		fmt.Fprintln(os.Stderr, err)
		return 2
	}
	var o an.Ob
	if err := json.Unmarshal(b, &o); err != nil {
		fmt.Fprintln(os.Stderr, err)
		return 2
	}
	fmt.Printf("replaying obligation %s on %s\n", o.Key, repo)
	p, err := an.Load(repo, "linux", "amd64", nil)
	if err != nil {
		fmt.Printf("cannot analyse: %v\nVIOLATION property=%s replay=%s\n", err, o.Property, file)
		return 1
	}
	found := false
	rc := 0
	for _, r := range an.RulesFor(o.Property) {
		if r.ID != o.Rule {
			continue
		}
		obs, _ := an.RunRule(p, r)
		for _, x := range obs {
			if x.Key == o.Key {
				found = true
				fmt.Print(x.Describe())
				if x.Verdict != an.Discharged {
					fmt.Printf("VIOLATION property=%s replay=%s\n", o.Property, file)
					rc = 1
				}
			}
		}
	}
	if !found {
		fmt.Println("obligation no longer exists on the current tree (construct removed or repaired)")
	}
	return rc
}

// ---- other build configurations (thorough) -------------------------------------------------

type cfgOut struct {
	Config string  `json:"config"`
	Error  string  `json:"error,omitempty"`
	Obs    []an.Ob `json:"obs"`
}

func runConfigChild(prop, repo, verif, goos, goarch string) int {
	out := cfgOut{Config: goos + "/" + goarch}
	p, err := an.Load(repo, goos, goarch, nil)
	if err != nil {
		out.Error = err.Error()
	} else {
		out.Obs, _, _ = evaluate(p, prop, false, loadKnown(verif))
	}
	json.NewEncoder(os.Stdout).Encode(out)
	return 0
}

func runOtherConfigs(prop, repo, verif string, obs *[]an.Ob) []map[string]interface{} {
	cfgs := [][2]string{{"linux", "386"}, {"windows", "amd64"}, {"illumos", "amd64"}}
	self, _ := os.Executable()
	results := make([]map[string]interface{}, len(cfgs))
	var wg sync.WaitGroup
	var mu sync.Mutex
	base := map[string]an.Verdict{}
	for _, o := range *obs {
		base[o.Key] = o.Verdict
	}
	for i, c := range cfgs {
		wg.Add(1)
		go func(i int, c [2]string) {
			defer wg.Done()
			cmd := exec.Command(self, "-prop", prop, "-cfgonly", "-goos", c[0], "-goarch", c[1], "-repo", repo, "-verif", verif)
			cmd.Stderr = os.Stderr
			b, err := cmd.Output()
			res := map[string]interface{}{"config": c[0] + "/" + c[1]}
			var co cfgOut
			if err != nil || json.Unmarshal(b, &co) != nil {
				res["status"] = "not analysed: child failed"
			} else if co.Error != "" {
				res["status"] = "not analysed: " + firstLine(co.Error)
			} else {
				n, diff := 0, 0
				mu.Lock()
				for _, o := range co.Obs {
					n++
					if o.Verdict != an.Discharged && o.Known == "" {
						if bv, ok := base[o.Key]; !ok || bv == an.Discharged {
							diff++
							o.Key = o.Key + "@" + co.Config
							o.Msg = "[" + co.Config + "] " + o.Msg
							*obs = append(*obs, o)
						}
					}
				}
				mu.Unlock()
				res["status"] = "analysed"
				res["obligations"] = n
				res["extra_violations"] = diff
			}
			results[i] = res
		}(i, c)
	}
	wg.Wait()
	return results
}

func firstLine(s string) string {
	if i := strings.Index(s, "\n"); i >= 0 {
		return s[:i]
	}
	return s
}

// ---- mutant self-test (thorough) ----------------------------------------------------------------

func loadMutants(verif, prop string) []string {
	files, _ := filepath.Glob(filepath.Join(verif, "mutants", "*.json"))
	sort.Strings(files)
	var out []string
	for _, f := range files {
		b, err := os.ReadFile(f)
		if err != nil {
			continue
		}
		var m mutant
		if json.Unmarshal(b, &m) != nil {
			continue
		}
		if m.Property == prop {
			out = append(out, f)
		}
	}
	return out
}

func runMutants(prop, repo, verif string, seed int) []mutantResult {
	files := loadMutants(verif, prop)
	if seed != 0 && len(files) > 1 {
		// VERIF_SEED only permutes the scheduling order
		k := seed % len(files)
		if k < 0 {
			k = -k
		}
		files = append(files[k:], files[:k]...)
	}
	self, _ := os.Executable()
	results := make([]mutantResult, len(files))
	sem := make(chan struct{}, 8)
	var wg sync.WaitGroup
	for i, f := range files {
		wg.Add(1)
		go func(i int, f string) {
			defer wg.Done()
			sem <- struct{}{}
			defer func() { <-sem }()
			cmd := exec.Command(self, "-runmutant", f, "-repo", repo, "-verif", verif)
			b, err := cmd.Output()
			var r mutantResult
			if json.Unmarshal(b, &r) != nil {
				r = mutantResult{ID: filepath.Base(f), Status: "invalid", Detail: fmt.Sprintf("child failed: %v", err)}
			}
			results[i] = r
		}(i, f)
	}
	wg.Wait()
	sort.Slice(results, func(i, j int) bool { return results[i].ID < results[j].ID })
	return results
}

func runMutantChild(file, repo, verif string) int {
	emit := func(r mutantResult) int {
		json.NewEncoder(os.Stdout).Encode(r)
		return 0
	}
	b, err := os.ReadFile(file)
	if err != nil {
		return emit(mutantResult{ID: file, Status: "invalid", Detail: err.Error()})
	}
	var m mutant
	if err := json.Unmarshal(b, &m); err != nil {
		return emit(mutantResult{ID: file, Status: "invalid", Detail: err.Error()})
	}
	if m.ID == "" {
		m.ID = strings.TrimSuffix(filepath.Base(file), ".json")
	}
	overlay, status, detail := mutantOverlay(m, repo, verif)
	if status != "" {
		return emit(mutantResult{ID: m.ID, Status: status, Detail: detail})
	}
	p, err := an.Load(repo, "linux", "amd64", overlay)
	if err != nil {
		return emit(mutantResult{ID: m.ID, Status: "invalid", Detail: "mutant does not load: " + firstLine(err.Error())})
	}
	obs, _, _ := evaluate(p, m.Property, false, loadKnown(verif))
	var by []string
	var other []string
	for _, o := range obs {
		if o.Verdict == an.Discharged || o.Known != "" {
			continue
		}
		if os.Getenv("VERIF_MUTVERBOSE") != "" {
			fmt.Fprintf(os.Stderr, "[%s] %s at %s\n  %s\n", o.Verdict, o.Key, o.Pos, o.Msg)
			for _, l := range o.Path {
				fmt.Fprintln(os.Stderr, "    ", l)
			}
		}
		if m.Rule == "" || strings.HasPrefix(o.Rule, m.Rule) {
			by = append(by, o.Key)
		} else {
			other = append(other, o.Key)
		}
	}
	if m.Expect == "pass" {
		if len(by)+len(other) == 0 {
			return emit(mutantResult{ID: m.ID, Status: "pass-ok"})
		}
		return emit(mutantResult{ID: m.ID, Status: "pass-alarm", By: append(by, other...), Detail: "behaviour-preserving variant raised an alarm"})
	}
	if len(by) > 0 {
		return emit(mutantResult{ID: m.ID, Status: "killed", By: by})
	}
	if len(other) > 0 {
		return emit(mutantResult{ID: m.ID, Status: "killed", By: other, Detail: "reported by a different rule than the one named"})
	}
	return emit(mutantResult{ID: m.ID, Status: "survived", Detail: "no rule of " + m.Property + " reported " + m.Note})
}

// mutantOverlay builds the file overlay a mutant describes (patch and/or find/replace edits).
func mutantOverlay(m mutant, repo, verif string) (overlay map[string][]byte, status, detail string) {
	type edit struct{ File, Find, Replace string }
	edits := []edit{}
	if m.File != "" {
		edits = append(edits, edit{m.File, m.Find, m.Replace})
	}
	for _, e := range m.Edits {
		edits = append(edits, edit{e.File, e.Find, e.Replace})
	}
	overlay = map[string][]byte{}
	if m.Patch != "" {
		pb, err := os.ReadFile(filepath.Join(verif, m.Patch))
		if err != nil {
			return nil, "invalid", err.Error()
		}
		overlay, err = applyUnifiedDiff(repo, string(pb))
		if err != nil {
			return nil, "stale", err.Error()
		}
	}
	for _, e := range edits {
		abs := filepath.Join(repo, e.File)
		src, ok := overlay[abs]
		if !ok {
			var err error
			src, err = os.ReadFile(abs)
			if err != nil {
				return nil, "stale", err.Error()
			}
		}
		if n := strings.Count(string(src), e.Find); n != 1 {
			return nil, "stale", fmt.Sprintf("find text occurs %d times in %s", n, e.File)
		}
		overlay[abs] = []byte(strings.Replace(string(src), e.Find, e.Replace, 1))
	}
	return overlay, "", ""
}

// runShowNorm prints the normalised source of a patched tree.
func runShowNorm(patch, repo, verif string) int {
	pb, err := os.ReadFile(patch)
	if err != nil {
		fmt.Fprintln(os.Stderr, err)
		return 2
	}
	var overlay map[string][]byte
	if strings.HasSuffix(patch, ".json") {
		var m mutant
		json.Unmarshal(pb, &m)
		overlay, _, _ = mutantOverlay(m, repo, verif)
	} else {
		overlay, err = applyUnifiedDiff(repo, string(pb))
		if err != nil {
			fmt.Fprintln(os.Stderr, err)
			return 2
		}
	}
	an.NormalizeLog = func(s string) { fmt.Fprintln(os.Stderr, "normalize:", s) }
	p, err := an.Load(repo, "linux", "amd64", overlay)
	if err != nil {
		fmt.Fprintln(os.Stderr, err)
		return 2
	}
	fmt.Fprintln(os.Stderr, "rounds:", p.Normalized)
	for f, src := range p.Overlay {
		if _, was := overlay[f]; was && string(overlay[f]) == string(src) {
			continue
		}
		fmt.Printf("==== %s\n%s\n", f, src)
	}
	return 0
}

// runMatrix evaluates every property on /repo + patch (overlay) and prints {property: [keys]}.
func runMatrix(patch, repo, verif string) int {
	pb, err := os.ReadFile(patch)
	if err != nil {
		fmt.Fprintln(os.Stderr, err)
		return 2
	}
	var overlay map[string][]byte
	if strings.HasSuffix(patch, ".json") {
		var m mutant
		if err := json.Unmarshal(pb, &m); err != nil {
			fmt.Fprintln(os.Stderr, err)
			return 2
		}
		var st, detail string
		overlay, st, detail = mutantOverlay(m, repo, verif)
		if st != "" {
			fmt.Fprintln(os.Stderr, st, detail)
			return 2
		}
	} else {
		overlay, err = applyUnifiedDiff(repo, string(pb))
		if err != nil {
			fmt.Fprintln(os.Stderr, err)
			return 2
		}
	}
	p, err := an.Load(repo, "linux", "amd64", overlay)
	if err != nil {
		fmt.Fprintln(os.Stderr, "does not load:", firstLine(err.Error()))
		return 2
	}
	out := map[string][]string{}
	for id := range rules.Props {
		obs, _, _ := evaluate(p, id, false, loadKnown(verif))
		for _, o := range obs {
			if o.Verdict != an.Discharged && o.Known == "" {
				out[id] = append(out[id], o.Key)
			}
		}
	}
	json.NewEncoder(os.Stdout).Encode(out)
	return 0
}

// ---- evidence -------------------------------------------------------------------------------------

func writeEvidence(evDir, prop, tier string, seed int, info rules.PropInfo, obs []an.Ob, fns []string, nrules int,
	cfgs []map[string]interface{}, mres []mutantResult, wall time.Duration, nviol int, p *an.Prog) {
	nd := 0
	distinct := map[string]bool{}
	perRule := map[string][2]int{}
	for _, o := range obs {
		pr := perRule[o.Rule]
		pr[0]++
		if o.Verdict == an.Discharged {
			nd++
			pr[1]++
		}
		perRule[o.Rule] = pr
		if !strings.HasSuffix(o.Key, "|anchor") && !strings.HasSuffix(o.Key, "|floor") {
			distinct[o.Key] = true
		}
	}
	// samples: up to 3 per rule, plus every non-discharged one
	var samples []interface{}
	taken := map[string]int{}
	for _, o := range obs {
		if o.Verdict != an.Discharged || taken[o.Rule] < 3 {
			taken[o.Rule]++
			samples = append(samples, o)
		}
	}
	var ruleList []map[string]interface{}
	for _, r := range an.RulesFor(prop) {
		pr, ran := perRule[r.ID]
		if !ran && r.Sweep && tier != "thorough" {
			continue
		}
		ruleList = append(ruleList, map[string]interface{}{"id": r.ID, "engine": r.Engine, "clause": r.Doc,
			"obligations": pr[0], "discharged": pr[1], "floor": r.Floor, "sweep": r.Sweep})
	}
	killed, survived, stale := 0, 0, 0
	for _, m := range mres {
		switch m.Status {
		case "killed", "pass-ok":
			killed++
		case "survived", "pass-alarm":
			survived++
		default:
			stale++
		}
	}
	evals := len(obs)
	for _, c := range cfgs {
		if n, ok := c["obligations"].(int); ok {
			evals += n
		}
	}
	evals += len(mres)
	cov := map[string]interface{}{
		"explanation":         info.Explanation,
		"not_decided":         info.NotDecided,
		"obligations":         len(obs),
		"discharged":          nd,
		"evaluations":         evals,
		"distinct_nontrivial": len(distinct),
		"rule": "one obligation per (rule, function, construct) generated from the SSA of /repo's working tree; " +
			"distinct = distinct obligation keys that matched a concrete construct (anchor/floor bookkeeping entries excluded); " +
			"evaluations additionally count obligations re-evaluated in other build configurations and self-test mutants",
		"samples":            samples,
		"rules":              ruleList,
		"functions_analysed": fns,
		"checker_cmd":        fmt.Sprintf("./check %s %s", prop, tier),
		"trusted_base":       rules.TrustedBase,
		"exhaustive":         false,
	}
	if p != nil {
		cov["configuration"] = p.Config
		cov["repo_packages"] = len(p.RepoPkgs())
	}
	if cfgs != nil {
		cov["other_configurations"] = cfgs
	}
	if mres != nil {
		cov["selftest_mutants"] = map[string]interface{}{"killed_or_ok": killed, "survived_or_alarm": survived, "stale_or_invalid": stale, "results": mres}
	}
	ev := map[string]interface{}{
		"property_id": prop,
		"tier":        tier,
		"seed":        seed,
		"level":       "other",
		"coverage":    cov,
		"assumptions": info.Assumptions,
		"wall_s":      float64(int(wall.Seconds()*100)) / 100,
		"violations":  nviol,
	}
	b, _ := json.MarshalIndent(ev, "", " ")
	os.WriteFile(filepath.Join(evDir, prop+".json"), b, 0o644)
}

// ---- manifest ---------------------------------------------------------------------------------------

func writeManifest(verif string) {
	ids := []string{}
	for i := 1; i <= 20; i++ {
		ids = append(ids, fmt.Sprintf("C%02d", i))
	}
	var checks []map[string]interface{}
	na := []map[string]string{}
	var served []string
	for _, id := range ids {
		rs := an.RulesFor(id)
		info := rules.Props[id]
		if len(rs) == 0 {
			reason := rules.NotApplicable[id]
			if reason == "" {
				reason = "no structural clause of this property is checked yet (see DESIGN.md §5/§7)"
			}
			na = append(na, map[string]string{"property_id": id, "reason": reason})
			continue
		}
		served = append(served, id)
		engines := map[string]bool{}
		var rids []string
		for _, r := range rs {
			for _, e := range strings.Split(r.Engine, "+") {
				engines[e] = true
			}
			rids = append(rids, r.ID)
		}
		var es []string
		for e := range engines {
			es = append(es, e)
		}
		sort.Strings(es)
		checks = append(checks, map[string]interface{}{
			"property_id":         id,
			"quick_cmd":           "./check " + id + " quick",
			"thorough_cmd":        "./check " + id + " thorough",
			"evidence_file":       "/verif/evidence/" + id + ".json",
			"replay_cmd_template": "./check -explain {path}",
			"engine":              "nsqcheck",
			"level_claimed": map[string]string{
				"category":   "other",
				"text":       "Static analysis of the type-checked SSA of /repo: structural necessary conditions of the property hold on every path / call site / writer. " + info.Explanation + " NOT decided: " + info.NotDecided,
				"design_ref": "DESIGN.md §5 " + id,
			},
			"level_note": "Trusted: go/types+go/ssa+x/tools v0.29.0, the engines under tool/an, documented library contracts (DESIGN.md §4.1). Assumes: " + strings.Join(info.Assumptions, "; "),
			"technique":  "static analysis over go/ssa (" + strings.Join(es, ", ") + " engines): rules " + strings.Join(rids, ", "),
		})
	}
	m := map[string]interface{}{
		"version":   1,
		"setup_cmd": "cd tool && GOFLAGS=-mod=vendor GOPROXY=off GOSUMDB=off GOTOOLCHAIN=local GOWORK=off go build -o ../bin/nsqcheck ./cmd/nsqcheck",
		"hooks": map[string]interface{}{
			"guard":            "verif",
			"enable":           "none needed: static analysis reads /repo's working tree; no instrumentation is compiled into nsq",
			"baseline_off_cmd": "cd /repo && GOFLAGS=-mod=mod go test -vet=off -count=1 ./...",
			"source_commits":   []string{},
			"add_only":         true,
		},
		"engines": []map[string]interface{}{{
			"name": "nsqcheck", "path": "tool/", "serves_properties": served,
			"kind_free_text": "custom static analyser over go/packages + go/ssa (x/tools v0.29.0, vendored): CFG path queries with per-path value tracking, dominating-guard extraction, origin slicing, locksets, error-type closure, shape/sibling agreement, who-may-call tables",
		}},
		"checks":         checks,
		"not_applicable": na,
		"notes":          "All properties are claimed at level other: the checks decide structural necessary clauses, not the behaviour over histories. See DESIGN.md §1, §7. Known genuine defects: known_findings.json.",
	}
	b, _ := json.MarshalIndent(m, "", " ")
	os.WriteFile(filepath.Join(verif, "MANIFEST.json"), append(b, '\n'), 0o644)
}
