package main

import (
	"fmt"
	"os"
	"path/filepath"
	"strings"
)

// applyUnifiedDiff applies a git-style unified diff to the files under repo and returns the
// resulting contents keyed by absolute path (an overlay; nothing is written). A hunk must match
// exactly, at its stated position or at exactly one other position in the file.
func applyUnifiedDiff(repo, diff string) (map[string][]byte, error) {
	out := map[string][]byte{}
	lines := strings.Split(diff, "\n")
	i := 0
	for i < len(lines) {
		if !strings.HasPrefix(lines[i], "--- ") {
			i++
			continue
		}
		if i+1 >= len(lines) || !strings.HasPrefix(lines[i+1], "+++ ") {
			return nil, fmt.Errorf("malformed diff header at line %d", i+1)
		}
		oldName := strings.TrimPrefix(strings.Fields(lines[i][4:])[0], "a/")
		newName := strings.TrimPrefix(strings.Fields(lines[i+1][4:])[0], "b/")
		i += 2
		var src []string
		if strings.HasSuffix(oldName, "/dev/null") || oldName == "/dev/null" {
			src = nil
		} else {
			abs := filepath.Join(repo, oldName)
			b, ok := out[abs]
			if !ok {
				var err error
				b, err = os.ReadFile(abs)
				if err != nil {
					return nil, err
				}
			}
			src = strings.Split(string(b), "\n")
		}
		if newName == "/dev/null" {
			// a deleted file: an overlay cannot remove a file, so it becomes an empty file of the same package (its build
			// constraints go with its content)
			pkg := "main"
			for _, l := range src {
				if strings.HasPrefix(l, "package ") {
					pkg = strings.Fields(l)[1]
					break
				}
			}
			out[filepath.Join(repo, oldName)] = []byte("package " + pkg + "\n")
			for i < len(lines) && !strings.HasPrefix(lines[i], "--- ") && !strings.HasPrefix(lines[i], "diff --git") {
				i++
			}
			continue
		}
		offset := 0
		for i < len(lines) && strings.HasPrefix(lines[i], "@@") {
			var ol, oc, nl, nc int
			oc, nc = 1, 1
			hdr := lines[i]
			parts := strings.Fields(hdr)
			if len(parts) < 3 {
				return nil, fmt.Errorf("bad hunk header %q", hdr)
			}
			parseRange := func(s string, l, c *int) {
				s = s[1:]
				if k := strings.Index(s, ","); k >= 0 {
					fmt.Sscanf(s[:k], "%d", l)
					fmt.Sscanf(s[k+1:], "%d", c)
				} else {
					fmt.Sscanf(s, "%d", l)
				}
			}
			parseRange(parts[1], &ol, &oc)
			parseRange(parts[2], &nl, &nc)
			i++
			var oldBlk, newBlk []string
			for i < len(lines) && len(oldBlk) < oc || i < len(lines) && len(newBlk) < nc {
				l := lines[i]
				switch {
				case strings.HasPrefix(l, "\\"):
				case strings.HasPrefix(l, "-"):
					oldBlk = append(oldBlk, l[1:])
				case strings.HasPrefix(l, "+"):
					newBlk = append(newBlk, l[1:])
				case strings.HasPrefix(l, " ") || l == "":
					t := ""
					if l != "" {
						t = l[1:]
					}
					oldBlk = append(oldBlk, t)
					newBlk = append(newBlk, t)
				default:
					return nil, fmt.Errorf("unexpected line in hunk: %q", l)
				}
				i++
			}
			for i < len(lines) && strings.HasPrefix(lines[i], "\\") {
				i++
			}
			matchAt := func(pos int) bool {
				if pos < 0 || pos+len(oldBlk) > len(src) {
					return false
				}
				for k, o := range oldBlk {
					if src[pos+k] != o {
						return false
					}
				}
				return true
			}
			pos := ol - 1 + offset
			if oc == 0 {
				pos = ol + offset
			}
			if !matchAt(pos) {
				cands := []int{}
				for p := 0; p+len(oldBlk) <= len(src); p++ {
					if matchAt(p) {
						cands = append(cands, p)
					}
				}
				if len(cands) != 1 {
					return nil, fmt.Errorf("hunk %q of %s matches %d places", hdr, oldName, len(cands))
				}
				pos = cands[0]
			}
			ns := append([]string{}, src[:pos]...)
			ns = append(ns, newBlk...)
			ns = append(ns, src[pos+len(oldBlk):]...)
			src = ns
			offset += len(newBlk) - len(oldBlk)
		}
		out[filepath.Join(repo, newName)] = []byte(strings.Join(src, "\n"))
	}
	if len(out) == 0 {
		return nil, fmt.Errorf("diff names no file")
	}
	return out, nil
}
