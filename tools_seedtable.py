#!/usr/bin/env python3
"""Render the seeded-change table of DESIGN.md §11.5 from seeded/*/meta.json."""
import json, glob, os
rows = []
for d in sorted(glob.glob(os.path.join(os.path.dirname(os.path.abspath(__file__)), 'seeded', 'C*', ''))):
    sid = os.path.basename(d.rstrip('/'))
    m = json.load(open(d + 'meta.json'))
    rules = sorted({k.split('|')[0] for k in m.get('static_check', {}).get('reported_obligations', [])})
    s = m.get('summary', '').replace('|', '/').replace('\n', ' ')
    if len(s) > 170:
        s = s[:167] + '…'
    conf = m.get('confirmed_by_me', {})
    ok = all(conf.get(k) for k in ('demo_passes_without_change', 'applies', 'compiles', 'demo_fails_with_change', 'suite_passes_with_change'))
    rows.append((sid, m.get('round', 1), s, 'yes' if ok else 'NO', m.get('first_evaluation', '?'), ', '.join(rules) or '–'))
print('| seed | round | change | confirmed | first evaluation | reported by (current checks) |')
print('|---|---|---|---|---|---|')
for r in rows:
    print('| %s | %s | %s | %s | %s | %s |' % r)
